//! Gossip engine (C10, C11, C13 service part, C29): drives the real `Service` (through the
//! repository's own `test::peer::Peer` double: real gossip store, address book, routing table,
//! sessions, signatures) with abstract scripts and logs, after every step, what the node did:
//! announcements written per peer, disconnects, the gossip table, the address book, sessions and
//! subscriptions. The log is validated by TLC against spec/TraceGossip.tla.
//!
//! Input: ndjson, one run per line: {"run":id,"peers":P,"nodes":K,"repos":[{stored,seeded,private,
//! allow:[node..],delegates:[node..]}],"ops":[[...],...]}. Node 0 is the node under test; nodes
//! 1..P may connect to it; nodes P+1..K only author announcements. Times are milliseconds relative
//! to the node's start time.
use std::collections::{BTreeSet, HashMap};
use std::net;
use std::path::Path;
use std::str::FromStr;

use hwv::*;
use radicle::crypto::test::signer::MockSigner;
use radicle::identity::doc::{Doc, RawDoc, Visibility};
use radicle::identity::project::Project;
use radicle::identity::{Did, RepoId};
use radicle::node::address::Store as _;
use radicle::node::routing::Store as _;
use radicle::node::config::PeerConfig;
use radicle::node::device::Device;
use radicle::node::{Alias, Features, UserAgent};
use radicle::storage::refs::{Refs, SignedRefsAt, IDENTITY_ROOT};
use radicle::storage::ReadRepository;
use radicle::test::storage::{MockRepository, MockStorage};
use radicle_node::prelude::{BoundedVec, Filter, LocalDuration, LocalTime, NodeId, Timestamp};
use radicle_node::service::gossip::Store as _;
use radicle_node::service::io::Io;
use radicle_node::service::message::*;
use radicle_node::service::policy::Scope;
use radicle_node::service::{self, Command, DisconnectReason, ServiceState};
use radicle_node::test::peer::{self, Peer};
use radicle_node::{Link, PROTOCOL_VERSION};

const T0: u64 = 1_700_000_000_000;
const MAXT: i64 = 2_000_000_000; // encoding of Timestamp::MAX in scripts / logs
const ZEROT: i64 = -1_000_000_000; // encoding of Timestamp 0

struct RepoSpec {
    rid: RepoId,
    stored: bool,
    private: bool,
    allow: Vec<usize>,
    delegates: Vec<usize>,
}

struct World {
    alice: Peer<MockStorage, MockSigner>,
    devices: Vec<Device<MockSigner>>,
    nids: Vec<NodeId>,
    repos: Vec<RepoSpec>,
    npeers: usize,
    aids: HashMap<String, usize>,
    next_aid: usize,
}

fn ts_of(rel: i64) -> Timestamp {
    if rel == MAXT {
        Timestamp::MAX
    } else if rel == ZEROT {
        Timestamp::MIN
    } else {
        Timestamp::from(LocalTime::from_millis((T0 as i64 + rel) as u128))
    }
}

fn rel_of(ts: Timestamp) -> i64 {
    let v = *ts;
    if v == *Timestamp::MAX {
        MAXT
    } else if v == 0 {
        ZEROT
    } else {
        (v as i64 - T0 as i64).clamp(-900_000_000, 1_900_000_000)
    }
}

fn doc_for(spec: &RepoSpec, nids: &[NodeId], i: usize) -> Doc {
    let project = Project::new(
        radicle::identity::project::ProjectName::from_str(&format!("repo{i}")).unwrap(),
        "verif".to_string(),
        radicle_git_ext::ref_format::refname!("master"),
    )
    .unwrap();
    let delegates: Vec<Did> = spec.delegates.iter().map(|d| Did::from(nids[*d])).collect();
    let visibility = if spec.private {
        Visibility::Private { allow: spec.allow.iter().map(|d| Did::from(nids[*d])).collect() }
    } else {
        Visibility::Public
    };
    RawDoc::new(project, delegates.clone(), 1, visibility).verified().expect("doc")
}

impl World {
    fn new(run: &Value) -> Self {
        let npeers = run["peers"].as_u64().unwrap() as usize;
        let nnodes = run["nodes"].as_u64().unwrap() as usize;
        let devices: Vec<Device<MockSigner>> =
            (0..=nnodes).map(|i| Device::mock_from_seed([(i + 1) as u8; 32])).collect();
        let nids: Vec<NodeId> = devices.iter().map(|d| *d.public_key()).collect();
        let repos: Vec<RepoSpec> = run["repos"]
            .as_array()
            .unwrap()
            .iter()
            .enumerate()
            .map(|(i, r)| {
                let mut spec = RepoSpec {
                    rid: RepoId::from(git2::Oid::zero()),
                    stored: r["stored"].as_bool().unwrap(),
                    private: r["private"].as_bool().unwrap(),
                    allow: r["allow"].as_array().unwrap().iter().map(|x| x.as_u64().unwrap() as usize).collect(),
                    delegates: r["delegates"].as_array().unwrap().iter().map(|x| x.as_u64().unwrap() as usize).collect(),
                };
                // The repository id is the blob id of its initial identity document.
                spec.rid = RepoId::from(doc_for(&spec, &nids, i).encode().unwrap().0);
                spec
            })
            .collect();
        let mut storage = MockStorage::empty();
        for (i, r) in repos.iter().enumerate() {
            if r.stored {
                storage.repos.insert(r.rid, MockRepository::new(r.rid, doc_for(r, &nids, i)));
            }
        }
        let mut config = service::Config::test(Alias::from_str("alice").unwrap());
        config.peers = PeerConfig::Static;
        // persistent peers: dialled by initialize(), session kept (Disconnected) when the connection drops
        for p in run["persistent"].as_array().map(|a| a.to_vec()).unwrap_or_default() {
            let p = p.as_u64().unwrap() as usize;
            let addr = radicle::node::Address::from(net::SocketAddr::from(([8, 8, 8, p as u8], 8776)));
            config.connect.insert((nids[p], addr).into());
        }
        let cfg = peer::Config {
            config,
            local_time: LocalTime::from_millis(T0 as u128),
            policy: Default::default(),
            signer: Device::mock_from_seed([1u8; 32]),
            rng: fastrand::Rng::with_seed(7),
            tmp: tempfile::TempDir::new().unwrap(),
        };
        let mut alice = Peer::config("alice", [7, 7, 7, 7], storage, cfg);
        // Our own signed refs for stored repositories, so that refs can be announced.
        let own = *alice.signer().public_key();
        for r in repos.iter().filter(|r| r.stored) {
            let at = radicle::git::Oid::from(git2::Oid::hash_object(git2::ObjectType::Commit, r.rid.to_string().as_bytes()).unwrap());
            let sigrefs = {
                let repo = alice.storage().repos.get(&r.rid).unwrap();
                let mut refs = Refs::default();
                refs.insert(IDENTITY_ROOT.to_ref_string(), repo.identity_root().unwrap());
                refs.insert(radicle_git_ext::ref_format::refname!("refs/heads/master"), at);
                SignedRefsAt { sigrefs: refs.signed(alice.signer()).unwrap().verified(repo).unwrap(), at }
            };
            alice.storage_mut().repo_mut(&r.rid).remotes.insert(own, sigrefs);
        }
        for (i, r) in run["repos"].as_array().unwrap().iter().enumerate() {
            if r["seeded"].as_bool().unwrap_or(false) {
                alice.seed(&repos[i].rid, Scope::All).unwrap();
            }
        }
        alice.initialize();
        // like the first `wake` of a started node: publish the inventory announcement
        alice.service.command(Command::AnnounceInventory);
        World { alice, devices, nids, repos, npeers, aids: HashMap::new(), next_aid: 1 }
    }

    fn addr(&self, p: usize) -> radicle::node::Address {
        radicle::node::Address::from(net::SocketAddr::from(([8, 8, 8, p as u8], 8776)))
    }

    fn node_index(&self, nid: &NodeId) -> i64 {
        self.nids.iter().position(|n| n == nid).map(|i| i as i64).unwrap_or(-1)
    }

    fn repo_index(&self, rid: &RepoId) -> i64 {
        self.repos.iter().position(|r| r.rid == *rid).map(|i| (i + 1) as i64).unwrap_or(-1)
    }

    /// Identify an announcement (by announcer + signature); emit a `def` event on first sight.
    fn aid(&mut self, ann: &Announcement, sig_ok: Option<bool>, out: &mut Out) -> usize {
        let key = format!("{}:{}:{}", ann.node, ann.signature, rel_of(ann.timestamp()));
        if let Some(a) = self.aids.get(&key) {
            return *a;
        }
        let a = self.next_aid;
        self.next_aid += 1;
        self.aids.insert(key, a);
        let (kind, repo, repos, nrefs) = match &ann.message {
            AnnouncementMessage::Node(_) => ("node", 0, vec![], 0),
            AnnouncementMessage::Inventory(inv) => ("inv", 0, inv.inventory.iter().map(|r| self.repo_index(r)).collect(), 0),
            AnnouncementMessage::Refs(r) => ("refs", self.repo_index(&r.rid), vec![], r.refs.len()),
        };
        out.emit(&json!({"ev": "def", "aid": a, "node": self.node_index(&ann.node), "kind": kind, "repo": repo,
            "ts": rel_of(ann.timestamp()), "sig": sig_ok.unwrap_or_else(|| ann.verify()), "repos": repos, "nrefs": nrefs}));
        a
    }

    fn make_ann(&self, node: usize, kind: &str, repo: usize, ts: i64, sig: bool, variant: u64) -> Announcement {
        let timestamp = ts_of(ts);
        let msg: AnnouncementMessage = match kind {
            "node" => NodeAnnouncement {
                version: PROTOCOL_VERSION,
                features: Features::SEED,
                timestamp,
                alias: Alias::from_str(&format!("n{node}v{variant}")).unwrap(),
                addresses: Some(self.addr(node)).into(),
                nonce: 0,
                agent: UserAgent::from_str("/radicle:test/").unwrap(),
            }
            .solve(0)
            .unwrap()
            .into(),
            "inv" => {
                // variant selects the inventory content: bit i set = repo i+1 included
                let inv: Vec<RepoId> = self.repos.iter().enumerate().filter(|(i, _)| variant & (1 << i) != 0).map(|(_, r)| r.rid).collect();
                InventoryAnnouncement { inventory: BoundedVec::try_from(inv).unwrap(), timestamp }.into()
            }
            "refs" => {
                let rid = self.repos[repo - 1].rid;
                let mut refs = BoundedVec::new();
                if variant != 99 {
                    let at = radicle::git::Oid::from(git2::Oid::hash_object(git2::ObjectType::Commit, format!("{node}/{repo}/{variant}").as_bytes()).unwrap());
                    refs.push(radicle::storage::refs::RefsAt { remote: self.nids[node], at }).unwrap();
                }
                RefsAnnouncement { rid, refs, timestamp }.into()
            }
            _ => fatal("bad kind"),
        };
        if sig {
            msg.signed(&self.devices[node])
        } else {
            // forged: signed by another key, attributed to `node`
            let other = (node + 1) % self.devices.len();
            let mut ann = msg.signed(&self.devices[other]);
            ann.node = self.nids[node];
            ann
        }
    }

    /// Drain the outbox and observe the node's state; emit the step event.
    fn observe(&mut self, op: &Value, panic: Option<String>, incoming: usize, out: &mut Out) -> Vec<usize> {
        let mut sends = Vec::new();
        let mut other = Vec::new();
        let mut disc = Vec::new();
        let mut fetch = Vec::new();
        let ios: Vec<Io> = std::iter::from_fn(|| self.alice.service.next()).collect();
        for io in ios {
            match io {
                Io::Write(to, msgs) => {
                    let to = self.node_index(&to);
                    for m in msgs {
                        match m {
                            Message::Announcement(ann) => {
                                let a = self.aid(&ann, None, out);
                                sends.push(json!([to, a]));
                            }
                            Message::Subscribe(_) => other.push(json!([to, "subscribe"])),
                            Message::Ping(_) => other.push(json!([to, "ping"])),
                            Message::Pong { .. } => other.push(json!([to, "pong"])),
                            Message::Info(_) => other.push(json!([to, "info"])),
                        }
                    }
                }
                Io::Disconnect(nid, _) => disc.push(self.node_index(&nid)),
                Io::Fetch { rid, remote, .. } => fetch.push(json!([self.repo_index(&rid), self.node_index(&remote)])),
                Io::Connect(..) | Io::Wakeup(_) => {}
            }
        }
        // gossip table
        let anns: Vec<Announcement> = self
            .alice
            .database()
            .gossip()
            .filtered(&Filter::default(), Timestamp::MIN, Timestamp::MAX)
            .map(|it| it.filter_map(|a| a.ok()).collect())
            .unwrap_or_default();
        let mut table = Vec::new();
        for ann in anns {
            table.push(self.aid(&ann, None, out));
        }
        table.sort();
        // address book
        let mut known = Vec::new();
        for (i, nid) in self.nids.iter().enumerate() {
            if i > 0 && matches!(self.alice.database().addresses().get(nid), Ok(Some(_))) {
                known.push(i);
            }
        }
        // sessions
        let mut conn = Vec::new();
        let mut subs = Vec::new();
        for p in 1..=self.npeers {
            if let Some(s) = self.alice.service.sessions().get(&self.nids[p]) {
                if s.is_connected() {
                    conn.push(p);
                    if let Some(sub) = &s.subscribe {
                        let rs: Vec<usize> = self.repos.iter().enumerate().filter(|(_, r)| sub.filter.contains(&r.rid)).map(|(i, _)| i + 1).collect();
                        subs.push(json!([p, rs]));
                    }
                }
            }
        }
        // routing table
        let mut routing: Vec<(i64, i64)> = self
            .alice
            .database()
            .routing()
            .entries()
            .map(|it| it.map(|(rid, nid)| (self.repo_index(&rid), self.node_index(&nid))).collect())
            .unwrap_or_default();
        routing.sort();
        let clock = self.alice.service.clock().as_millis() as i64 - T0 as i64;
        let vis: Vec<Value> = self.repos.iter().enumerate().map(|(i, r)| json!([i + 1, r.private, r.allow, r.delegates, r.stored])).collect();
        out.emit(&json!({"ev": "step", "op": op, "clock": clock, "sends": sends, "other": other, "disc": disc, "fetch": fetch,
            "table": table, "known": known, "conn": conn, "subs": subs, "routing": routing, "vis": vis, "panic": panic.unwrap_or_default(), "in": incoming}));
        disc.into_iter().filter(|d| *d > 0).map(|d| d as usize).collect()
    }

    fn disconnect(&mut self, p: usize) {
        let nid = self.nids[p];
        let link = self.alice.service.sessions().get(&nid).map(|s| s.link).unwrap_or(Link::Inbound);
        self.alice.service.disconnected(nid, link, &DisconnectReason::Command);
    }

    fn apply(&mut self, op: &Value, out: &mut Out) -> (Option<String>, usize) {
        let a = op.as_array().unwrap();
        let name = a[0].as_str().unwrap();
        let us = |i: usize| a[i].as_u64().unwrap() as usize;
        let int = |i: usize| a[i].as_i64().unwrap();
        // Announcements delivered to the node get their ids before the step, so that the `def`
        // precedes the step event.
        let mut incoming: Option<(usize, Message)> = None;
        let mut in_aid = 0;
        match name {
            "ann" => {
                let sig = a[6].as_bool().unwrap();
                let ann = self.make_ann(us(2), a[3].as_str().unwrap(), us(4), int(5), sig, a[7].as_u64().unwrap());
                in_aid = self.aid(&ann, Some(sig), out);
                incoming = Some((us(1), Message::Announcement(ann)));
            }
            "sub" => {
                let filter = if a[2].is_string() {
                    Filter::default()
                } else {
                    Filter::new(a[2].as_array().unwrap().iter().map(|r| self.repos[r.as_u64().unwrap() as usize - 1].rid))
                };
                incoming = Some((us(1), Message::subscribe(filter, ts_of(int(3)), ts_of(int(4)))));
            }
            "ping" => incoming = Some((us(1), Message::Ping(Ping { ponglen: us(2) as u16, zeroes: ZeroBytes::new(us(3) as u16) }))),
            "pong" => incoming = Some((us(1), Message::Pong { zeroes: ZeroBytes::new(us(2) as u16) })),
            "info" => {
                let rid = self.repos[0].rid;
                incoming = Some((us(1), Message::Info(Info::RefsAlreadySynced { rid, at: radicle::git::Oid::from(git2::Oid::zero()) })));
            }
            _ => {}
        }
        let res = guard(|| match name {
            "connect" => {
                let p = us(1);
                let addr = self.addr(p);
                let link = match self.alice.service.sessions().get(&self.nids[p]) {
                    Some(s) if s.link.is_outbound() && (s.is_initial() || s.is_connecting()) => Link::Outbound,
                    _ => Link::Inbound,
                };
                self.alice.service.connected(self.nids[p], addr, link);
            }
            "attempted" => {
                let p = us(1);
                let addr = self.addr(p);
                if self.alice.service.sessions().get(&self.nids[p]).map(|s| s.is_initial()).unwrap_or(false) {
                    self.alice.service.attempted(self.nids[p], addr);
                }
            }
            "disconnect" => self.disconnect(us(1)),
            "tick" => {
                let now = *self.alice.service.clock() + LocalDuration::from_millis(int(1) as u128);
                self.alice.service.tick(now, &Default::default());
                self.alice.service.wake();
            }
            "settime" => {
                let now = LocalTime::from_millis((T0 as i64 + int(1)) as u128);
                self.alice.service.tick(now, &Default::default());
                self.alice.service.wake();
            }
            "ann" | "sub" | "ping" | "pong" | "info" => {
                let (p, msg) = incoming.take().unwrap();
                self.alice.service.received_message(self.nids[p], msg);
            }
            "refs" => {
                let (tx, _rx) = crossbeam_channel::bounded(1);
                self.alice.service.command(Command::AnnounceRefs(self.repos[us(1) - 1].rid, tx));
            }
            "inv_add" => {
                let (tx, _rx) = crossbeam_channel::bounded(1);
                self.alice.service.command(Command::AddInventory(self.repos[us(1) - 1].rid, tx));
            }
            "ann_inv" => self.alice.service.command(Command::AnnounceInventory),
            "seed" => {
                let (tx, _rx) = crossbeam_channel::bounded(1);
                self.alice.service.command(Command::Seed(self.repos[us(1) - 1].rid, Scope::All, tx));
            }
            "unseed" => {
                let (tx, _rx) = crossbeam_channel::bounded(1);
                self.alice.service.command(Command::Unseed(self.repos[us(1) - 1].rid, tx));
            }
            "vis" => {
                let i = us(1) - 1;
                self.repos[i].private = a[2].as_bool().unwrap();
                self.repos[i].allow = a[3].as_array().unwrap().iter().map(|x| x.as_u64().unwrap() as usize).collect();
                if self.repos[i].stored {
                    let doc = doc_for(&self.repos[i], &self.nids, i);
                    let rid = self.repos[i].rid;
                    let remotes = self.alice.storage().repos.get(&rid).unwrap().remotes.clone();
                    let mut repo = MockRepository::new(rid, doc);
                    repo.remotes = remotes;
                    self.alice.storage_mut().repos.insert(rid, repo);
                }
            }
            "restart" => {
                self.alice.restart();
                // like the first `wake` of a started node: publish the (new) inventory announcement
                self.alice.service.command(Command::AnnounceInventory);
            }
            _ => fatal(&format!("unknown op {name}")),
        });
        (res.err(), in_aid)
    }
}

fn main() {
    let args = Args::parse();
    quiet_panics();
    let scripts = read_ndjson(Path::new(args.req("--scripts")));
    let mut out = Out::create(Path::new(args.req("--out")));
    for run in scripts {
        let mut w = World::new(&run);
        let repos: Vec<Value> = w.repos.iter().enumerate().map(|(i, r)| json!({"id": i + 1, "stored": r.stored, "private": r.private, "allow": r.allow, "delegates": r.delegates})).collect();
        out.emit(&json!({"ev": "init", "run": run["run"], "peers": w.npeers, "nodes": w.nids.len() - 1, "repos": repos}));
        w.observe(&json!(["init"]), None, 0, &mut out);
        let mut dead = false;
        for op in run["ops"].as_array().unwrap() {
            if dead {
                break;
            }
            let mut pending = vec![op.clone()];
            let mut budget = 8;
            while let Some(op) = pending.pop() {
                let (panic, in_aid) = w.apply(&op, &mut out);
                if panic.is_some() {
                    dead = true; // the node is gone after a panic; stop this run
                }
                let disc = w.observe(&op, panic, in_aid, &mut out);
                // The wire layer reacts to Io::Disconnect by dropping the connection.
                budget -= 1;
                if budget > 0 && !dead {
                    let conn: BTreeSet<usize> = (1..=w.npeers).filter(|p| w.alice.service.sessions().contains_key(&w.nids[*p])).collect();
                    for d in disc {
                        if conn.contains(&d) {
                            pending.push(json!(["disconnect", d]));
                        }
                    }
                }
            }
        }
    }
    out.finish();
}
