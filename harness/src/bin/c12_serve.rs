//! C12 (and the request-header part of C13) — the fetch responder. Binds spec/Serve.tla to
//! `radicle_node::worker` (header parser `upload_pack::pktline`, `Worker::is_authorized`,
//! `upload_pack::upload_pack`).
//!
//! hdr        cases emitted by TLC (kind "hdr": length class + token sequence + the set of results the
//!            model permits) are turned into real bytes and fed to the real `pktline::git_request`
//!            (hook `worker::verif`) under `guard`; the parsed `RepoId` must be the one the model
//!            extracts. For a sample of accepted headers the real `upload_pack::upload_pack` is run on
//!            in-memory streams against a real storage: the data that comes out must belong to the
//!            repository the header names, and nothing may be written when the step fails.
//! e2e        cases of kind "cell" (world class x requester) are realised with real nodes over
//!            loopback (`radicle_node::test::environment`): responder nodes holding one repository per
//!            (policy x visibility) class, requester nodes that are delegate / allow-listed / outsider.
//!            Each cell is one `Handle::fetch`; observed: upload-pack events of the responder for
//!            (rid, requester) = repository data written to the stream, the responder's own result
//!            (log line of `Wire::worker_result`), the requester's result and storage. Then a random
//!            sequence of policy changes and fetches on the same nodes. Everything observed is also
//!            written as a trace for TLC (TraceServe.tla).
//! record-hdr random token sequences beyond the model's product, real parser, logged for TLC.
//! fuzz       raw random / mutated header bytes through the real parser: panics are reported.
use std::collections::{BTreeMap, HashMap};
use std::io::{self, Cursor, Read, Write};
use std::path::Path;
use std::sync::{Arc, Condvar, Mutex, OnceLock};
use std::time::{Duration, Instant};

use hwv::*;
use radicle::identity::{Did, RepoId, Visibility};
use radicle::node::config::DefaultSeedingPolicy;
use radicle::node::device::Device;
use radicle::node::events::{Emitter, UploadPack};
use radicle::node::policy::Policy;
use radicle::node::{Alias, Config, Event, FetchResult, Handle as _, NodeId};
use radicle::storage::{ReadRepository, ReadStorage, SignRepository, WriteRepository};
use radicle::Storage;
use radicle_crypto::test::signer::MockSigner;
use radicle_node::service::policy::Scope;
use radicle_node::test::environment::{Node, NodeHandle};
use radicle_node::worker::verif::{git_request, upload_pack, GitRequest};

// ------------------------------------------------------------------------------------------------
// Tokens and header bytes (the concretisation of Serve.tla's PktLine section)

struct Ids(Vec<(String, RepoId)>);

impl Ids {
    fn get(&self, name: &str) -> Option<RepoId> {
        self.0.iter().find(|(n, _)| n == name).map(|(_, r)| *r)
    }
    fn name_of(&self, rid: &RepoId) -> String {
        self.0.iter().find(|(_, r)| r == rid).map(|(n, _)| n.clone()).unwrap_or_else(|| format!("?{rid}"))
    }
}

fn tok_bytes(tok: &str, ids: &Ids) -> Vec<u8> {
    match tok {
        "CMD" => b"git-upload-pack".to_vec(),
        "CMDX" => b"git-receive-pack".to_vec(),
        "SP" => b" ".to_vec(),
        "SL" => b"/".to_vec(),
        "RAD" => b"rad:".to_vec(),
        "GIT" => b".git".to_vec(),
        "JUNK" => b"not-an-id!".to_vec(),
        "NUL" => vec![0],
        "HOST" => b"host=".to_vec(),
        "NAME" => b"seed.example".to_vec(),
        "COLON" => b":".to_vec(),
        "PORT" => b"8776".to_vec(),
        "BADPORT" => b"99999".to_vec(),
        "V2" => b"version=2".to_vec(),
        "V1" => b"version=1".to_vec(),
        "VER" => b"version".to_vec(),
        "KV" => b"agent=git/2".to_vec(),
        "KEY" => b"side-band".to_vec(),
        "BAD8" => vec![0xff],
        t => {
            if let Some(r) = t.strip_prefix("ALT:") {
                let rid = ids.get(r).unwrap_or_else(|| fatal(&format!("unknown rid token {t}")));
                // the same 20 bytes, multibase base16 lower ("f" prefix)
                format!("f{}", *rid).into_bytes()
            } else if let Some(rid) = ids.get(t) {
                rid.canonical().into_bytes()
            } else {
                fatal(&format!("unknown token {t}"))
            }
        }
    }
}

fn body_bytes(body: &[String], ids: &Ids) -> Vec<u8> {
    body.iter().flat_map(|t| tok_bytes(t, ids)).collect()
}

/// Bytes on the stream for a length class and a body.
fn header_bytes(len: &str, body: &[u8]) -> Vec<u8> {
    let n = body.len() + 4;
    let mut out: Vec<u8> = Vec::new();
    match len {
        "exact" => {
            out.extend(format!("{n:04x}").bytes());
            out.extend(body);
        }
        "upper" => {
            out.extend(format!("{n:04X}").bytes());
            out.extend(body);
        }
        "plus" => {
            out.extend(format!("+{n:03x}").bytes());
            out.extend(body);
        }
        "long" => {
            out.extend(format!("{n:04x}").bytes());
            out.extend(body);
            out.extend(b"0014command=ls-refs\n00010000");
        }
        "short" => {
            out.extend(format!("{:04x}", n + 7).bytes());
            out.extend(body);
        }
        "eq4" => {
            out.extend(b"0004");
            out.extend(body);
        }
        "nonhex" => {
            out.extend(b"00g1");
            out.extend(body);
        }
        "nonutf8" => {
            out.extend([0xff, 0xfe, b'3', b'0']);
            out.extend(body);
        }
        "noprefix" => out.extend(b"00"),
        l if l.starts_with("lt4:") => {
            out.extend(format!("000{}", &l[4..]).bytes());
            out.extend(body);
        }
        l if l.starts_with("gt:") => {
            // all declared bytes are present: the worst case for a reader without a bounds check
            let d: usize = l[3..].parse().unwrap();
            out.extend(format!("{d:04x}").bytes());
            out.extend(body);
            while out.len() < d {
                out.push(b'x');
            }
        }
        other => fatal(&format!("unknown length class {other}")),
    }
    out
}

enum Parsed {
    Panic(String),
    Err(io::ErrorKind, String),
    Ok(GitRequest),
}

fn run_parser(bytes: &[u8]) -> Parsed {
    match guard(|| {
        let mut c = Cursor::new(bytes);
        git_request(&mut c)
    }) {
        Err(p) => Parsed::Panic(p),
        Ok(Err(e)) => Parsed::Err(e.kind(), e.to_string()),
        Ok(Ok(r)) => Parsed::Ok(r),
    }
}

/// The protocol-version rule of `upload_pack()`, on the parsed extras.
fn is_v2(extra: &[(String, Option<String>)]) -> bool {
    extra
        .iter()
        .find_map(|kv| match kv {
            (k, Some(v)) if k == "version" => Some(v == "2"),
            _ => None,
        })
        .unwrap_or(false)
}

/// The model's `Res` record for what the real parser did.
fn res_json(p: &Parsed, ids: &Ids) -> Value {
    let r = |ok: bool, err: &str, rid: &str, host: bool, port: bool, nextra: usize, v2: bool| {
        json!({"ok": ok, "err": err, "rid": rid, "host": host, "port": port, "nextra": nextra, "v2": v2})
    };
    match p {
        Parsed::Panic(_) => r(false, "panic", "-", false, false, 0, false),
        Parsed::Err(io::ErrorKind::UnexpectedEof, _) => r(false, "eof", "-", false, false, 0, false),
        Parsed::Err(io::ErrorKind::InvalidInput, _) => r(false, "invalid", "-", false, false, 0, false),
        Parsed::Err(k, _) => r(false, &format!("other:{k:?}"), "-", false, false, 0, false),
        Parsed::Ok(g) => r(
            true,
            "",
            &ids.name_of(&g.repo),
            g.host.is_some(),
            g.host.as_ref().map(|h| h.1.is_some()).unwrap_or(false),
            g.extra.len(),
            is_v2(&g.extra),
        ),
    }
}

/// A repository id that exists nowhere, derived from the seed (reproducible headers).
fn rid_from(rng: &mut fastrand::Rng) -> RepoId {
    let mut b = [0u8; 20];
    for x in b.iter_mut() {
        *x = rng.u8(..);
    }
    RepoId::from(git2::Oid::from_bytes(&b).unwrap())
}

fn hex(bytes: &[u8], max: usize) -> String {
    let mut s: String = bytes.iter().take(max).map(|b| format!("{b:02x}")).collect();
    if bytes.len() > max {
        s.push_str(&format!("..(+{})", bytes.len() - max));
    }
    s
}

// ------------------------------------------------------------------------------------------------
// Real repositories

fn project(storage: &Storage, signer: &Device<MockSigner>, name: &str, vis: Visibility, extra_delegates: &[Did]) -> RepoId {
    let tmp = tempfile::tempdir().unwrap();
    let (repo, _) = radicle::test::fixtures::repository(tmp.path());
    radicle::storage::git::transport::local::register(storage.clone());
    let branch = radicle::git::refname!("master");
    let (id, _, _) = radicle::rad::init(&repo, name.try_into().unwrap(), "", branch, vis, signer, storage)
        .unwrap_or_else(|e| fatal(&format!("rad::init {name}: {e}")));
    if !extra_delegates.is_empty() {
        let r = storage.repository(id).unwrap();
        let mut identity = radicle::cob::identity::Identity::load_mut(&r).unwrap();
        let mut doc = identity.doc().clone().edit();
        for d in extra_delegates {
            doc.delegate(*d);
        }
        identity.update("add delegate", "", &doc.verified().unwrap(), signer).unwrap();
        r.set_identity_head().unwrap();
        r.sign_refs(signer).unwrap();
        let doc = r.identity_doc().unwrap();
        if !extra_delegates.iter().all(|d| doc.is_delegate(d)) {
            fatal("set-up: delegate not in identity document");
        }
    }
    id
}

/// Make the identity document of a repository unreadable the way a node can end up with it: the
/// identity head `refs/rad/id` is advanced to a new revision (child of the current one) whose document
///   "v2"      declares an identity version this node does not support ("version": 2),
///   "corrupt" is not JSON,
///   "nodoc"   is missing from the revision's tree (a dangling rad/id).
/// Returns (readable head, unreadable head); the caller moves `refs/rad/id` between them.
fn unreadable_revision(storage: &Storage, rid: RepoId, kind: &str) -> (radicle::git::Oid, radicle::git::Oid) {
    let repo = storage.repository(rid).unwrap();
    let good = repo.identity_head().unwrap();
    let raw = repo.raw();
    let commit = raw.find_commit(*good).unwrap();
    let tree = commit.tree().unwrap();
    let embeds = raw.find_tree(tree.get_name("embeds").unwrap_or_else(|| fatal("set-up: no embeds/ in identity revision")).id()).unwrap();
    let blob = raw.find_blob(embeds.get_name("radicle.json").unwrap_or_else(|| fatal("set-up: no radicle.json")).id()).unwrap();
    let new_tree = match kind {
        "nodoc" => raw.treebuilder(None).unwrap().write().unwrap(),
        _ => {
            let content: Vec<u8> = if kind == "v2" {
                let mut v: Value = serde_json::from_slice(blob.content()).unwrap();
                v.as_object_mut().unwrap().insert("version".into(), json!(2));
                serde_json::to_vec(&v).unwrap()
            } else {
                b"{ \"payload\": not json".to_vec()
            };
            let b = raw.blob(&content).unwrap();
            let mut eb = raw.treebuilder(Some(&embeds)).unwrap();
            eb.insert("radicle.json", b, 0o100644).unwrap();
            let e = eb.write().unwrap();
            let mut tb = raw.treebuilder(Some(&tree)).unwrap();
            tb.insert("embeds", e, 0o040000).unwrap();
            tb.write().unwrap()
        }
    };
    let new_tree = raw.find_tree(new_tree).unwrap();
    let sig = commit.author();
    let bad = raw.commit(None, &sig, &sig, "identity revision this node cannot read", &new_tree, &[&commit]).unwrap();
    (good, bad.into())
}

fn set_identity_head(storage: &Storage, rid: RepoId, to: radicle::git::Oid, expect_ok: bool) {
    let repo = storage.repository(rid).unwrap();
    repo.set_identity_head_to(to).unwrap_or_else(|e| fatal(&format!("set identity head: {e}")));
    // the set-up is what the model says it is
    let loads = repo.identity_doc().is_ok() && matches!(storage.get(rid), Ok(Some(_)));
    if loads != expect_ok {
        fatal(&format!("set-up: identity document of {rid} loads = {loads}, wanted {expect_ok}"));
    }
}

// ------------------------------------------------------------------------------------------------
// The serve step on in-memory streams

struct ServeShared {
    out: Mutex<Vec<u8>>,
    done: Mutex<bool>,
    cv: Condvar,
}

/// Number of flush packets in a complete prefix of pkt-lines.
fn flushes(buf: &[u8]) -> usize {
    let mut pos = 0;
    let mut n = 0;
    while pos + 4 <= buf.len() {
        let Ok(s) = std::str::from_utf8(&buf[pos..pos + 4]) else { break };
        let Ok(len) = usize::from_str_radix(s, 16) else { break };
        if len == 0 {
            n += 1;
            pos += 4;
        } else if len < 4 {
            pos += 4;
        } else if pos + len <= buf.len() {
            pos += len;
        } else {
            break;
        }
    }
    n
}

struct ServeSend(Arc<ServeShared>);
impl Write for ServeSend {
    fn write(&mut self, buf: &[u8]) -> io::Result<usize> {
        let mut out = self.0.out.lock().unwrap();
        out.extend_from_slice(buf);
        // capability advertisement + ls-refs response
        if flushes(&out) >= 2 {
            *self.0.done.lock().unwrap() = true;
            self.0.cv.notify_all();
        }
        Ok(buf.len())
    }
    fn flush(&mut self) -> io::Result<()> {
        Ok(())
    }
}

struct ServeRecv {
    req: Cursor<Vec<u8>>,
    shared: Arc<ServeShared>,
}
impl Read for ServeRecv {
    fn read(&mut self, buf: &mut [u8]) -> io::Result<usize> {
        let n = self.req.read(buf)?;
        if n > 0 {
            return Ok(n);
        }
        // request fully sent: hold the stream open until the response is complete (the responder
        // kills the child as soon as its reader sees EOF), then EOF.
        let done = self.shared.done.lock().unwrap();
        let _ = self.shared.cv.wait_timeout_while(done, Duration::from_secs(10), |d| !*d).unwrap();
        Ok(0)
    }
}

/// Run the real `upload_pack` for a parsed header: returns (result, bytes written to the stream).
fn serve_step(storage: &Storage, nid: &NodeId, remote: NodeId, header: &GitRequest) -> (Result<(), String>, Vec<u8>) {
    let shared = Arc::new(ServeShared { out: Mutex::new(vec![]), done: Mutex::new(false), cv: Condvar::new() });
    let recv = ServeRecv { req: Cursor::new(b"0014command=ls-refs\n00010000".to_vec()), shared: shared.clone() };
    let send = ServeSend(shared.clone());
    let emitter: Emitter<Event> = Emitter::default();
    let r = guard(|| upload_pack(nid, remote, storage, &emitter, header, recv, send, Duration::from_secs(10)));
    let out = shared.out.lock().unwrap().clone();
    match r {
        Err(p) => (Err(format!("panic: {p}")), out),
        Ok(Err(e)) => (Err(e.to_string()), out),
        Ok(Ok(_)) => (Ok(()), out),
    }
}

fn contains(hay: &[u8], needle: &[u8]) -> bool {
    !needle.is_empty() && hay.windows(needle.len()).any(|w| w == needle)
}

// ------------------------------------------------------------------------------------------------
// hdr mode

fn strs(v: &Value) -> Vec<String> {
    v.as_array().map(|a| a.iter().map(|x| x.as_str().unwrap_or("").to_string()).collect()).unwrap_or_default()
}

/// Does the body contain a token standing for repository `name`?
fn mentions(body: &[String], name: &str) -> bool {
    body.iter().any(|t| t == name || t.strip_prefix("ALT:") == Some(name))
}

fn mode_hdr(args: &Args) {
    let cases = read_ndjson(Path::new(args.req("--cases")));
    let mut out = Out::create(Path::new(args.req("--out")));
    let sample = args.num("--serve-sample", 0) as usize;
    let dir = args.get("--dir").map(Path::new);
    // world for the serve step: a real storage with the two repositories the headers can name
    let signer = Device::mock_from_seed([7; 32]);
    let (ids, storage, heads) = if sample > 0 {
        let dir = dir.unwrap_or_else(|| fatal("--dir required with --serve-sample"));
        std::fs::create_dir_all(dir).unwrap();
        let storage = Storage::open(
            dir.join("serve-storage"),
            radicle::git::UserInfo { alias: Alias::new("verif"), key: *signer.public_key() },
        )
        .unwrap();
        let r1 = project(&storage, &signer, "serve-one", Visibility::Public, &[]);
        let r2 = project(&storage, &signer, "serve-two", Visibility::private([]), &[]);
        let h = |r: RepoId| storage.repository(r).unwrap().identity_head().unwrap().to_string();
        let heads = HashMap::from([("R1".to_string(), h(r1)), ("R2".to_string(), h(r2))]);
        if heads["R1"] == heads["R2"] {
            fatal("set-up: the two repositories are indistinguishable");
        }
        (Ids(vec![("R1".into(), r1), ("R2".into(), r2)]), Some(storage), heads)
    } else {
        let mut rng = fastrand::Rng::with_seed(0xc12);
        let (r1, r2) = (rid_from(&mut rng), rid_from(&mut rng));
        (Ids(vec![("R1".into(), r1), ("R2".into(), r2)]), None, HashMap::new())
    };
    let nid = *signer.public_key();
    let remote = *Device::mock_from_seed([8; 32]).public_key();

    // one evaluation per distinct (len, body)
    let mut seen: BTreeMap<String, ()> = BTreeMap::new();
    let (mut evals, mut accepted, mut rejected, mut panics, mut drift, mut wrong) = (0usize, 0usize, 0usize, 0usize, 0usize, 0usize);
    let mut to_serve: Vec<(Value, Vec<u8>)> = vec![];
    for c in &cases {
        if c["k"] != "hdr" {
            continue;
        }
        let len = c["len"].as_str().unwrap();
        let body = strs(&c["body"]);
        let key = format!("{len}|{}", body.join(","));
        if seen.insert(key, ()).is_some() {
            continue;
        }
        let bytes = header_bytes(len, &body_bytes(&body, &ids));
        let p = run_parser(&bytes);
        let actual = res_json(&p, &ids);
        let outs = c["outs"].as_array().cloned().unwrap_or_default();
        evals += 1;
        let exact = outs.iter().any(|o| *o == actual);
        let mut class = "";
        match &p {
            Parsed::Panic(_) => {
                panics += 1;
                class = "panic";
            }
            Parsed::Ok(g) => {
                accepted += 1;
                let name = ids.name_of(&g.repo);
                let model_other = outs.iter().any(|o| o["ok"] == true && o["rid"] != name.as_str());
                let model_same = outs.iter().any(|o| o["ok"] == true && o["rid"] == name.as_str());
                if !model_same && (model_other || !mentions(&body, &name)) {
                    wrong += 1;
                    class = "wrong-rid";
                } else if !exact {
                    drift += 1;
                    class = "drift";
                }
                if sample > 0 && ids.get(&name).is_some() {
                    to_serve.push((c.clone(), bytes.clone()));
                }
            }
            Parsed::Err(..) => {
                rejected += 1;
                if !exact {
                    drift += 1;
                    class = "drift";
                }
            }
        }
        if !class.is_empty() {
            let detail = match &p {
                Parsed::Panic(m) => m.clone(),
                Parsed::Err(_, m) => m.clone(),
                Parsed::Ok(g) => format!("{g:?}"),
            };
            out.emit(&json!({"kind": "hdr", "class": class, "len": len, "body": body, "bytes": hex(&bytes, 160),
                             "expected": outs, "actual": actual, "detail": detail}));
        }
    }
    // the serve step for a sample of accepted headers
    let mut served_ok = 0usize;
    let mut serve_checked = 0usize;
    if let Some(storage) = &storage {
        let step = (to_serve.len() / sample.max(1)).max(1);
        for (i, (c, bytes)) in to_serve.iter().enumerate() {
            if i % step != 0 {
                continue;
            }
            let Parsed::Ok(g) = run_parser(bytes) else { continue };
            let name = ids.name_of(&g.repo);
            let other = if name == "R1" { "R2" } else { "R1" };
            let model_v2 = c["outs"].as_array().unwrap().iter().any(|o| o["ok"] == true && o["v2"] == true);
            let (res, data) = serve_step(storage, &nid, remote, &g);
            serve_checked += 1;
            let has_own = contains(&data, heads[&name].as_bytes());
            let has_other = contains(&data, heads[other].as_bytes());
            let mut class = "";
            if has_other || (!data.is_empty() && res.is_ok() && !has_own) {
                class = "served-other-repository";
            } else if res.is_err() && !data.is_empty() {
                class = "data-before-failure";
            } else if model_v2 != (res.is_ok() && has_own) {
                class = "serve-drift";
                drift += 1;
            }
            if res.is_ok() && has_own {
                served_ok += 1;
            }
            if !class.is_empty() {
                out.emit(&json!({"kind": "serve", "class": class, "len": c["len"], "body": c["body"], "named": name,
                                 "model_v2": model_v2, "result": format!("{res:?}"), "bytes_out": data.len(),
                                 "has_own": has_own, "has_other": has_other}));
            }
        }
    }
    out.emit(&json!({"summary": true, "mode": "hdr", "evaluations": evals, "accepted": accepted, "rejected": rejected,
                     "panics": panics, "drift": drift, "wrong_rid": wrong, "serve_checked": serve_checked, "served_ok": served_ok}));
    out.finish();
}

// ------------------------------------------------------------------------------------------------
// record-hdr mode: random token sequences

const TOKENS: &[&str] = &[
    "CMD", "CMDX", "SP", "SL", "RAD", "GIT", "JUNK", "NUL", "HOST", "NAME", "COLON", "PORT", "BADPORT", "V2", "V1", "VER",
    "KV", "KEY", "BAD8", "R1", "R2", "ALT:R1", "ALT:R2",
];
const LENS: &[&str] = &[
    "exact", "upper", "plus", "long", "short", "eq4", "nonhex", "nonutf8", "noprefix", "lt4:0", "lt4:1", "lt4:2", "lt4:3", "gt:1025",
    "gt:65535",
];

fn random_body(rng: &mut fastrand::Rng) -> Vec<String> {
    let pick = |rng: &mut fastrand::Rng, xs: &[&str]| xs[rng.usize(..xs.len())].to_string();
    if rng.u8(..10) < 3 {
        // free sequence
        let n = rng.usize(..14);
        return (0..n).map(|_| pick(rng, TOKENS)).collect();
    }
    // a well-formed skeleton, then a few edits
    let mut b: Vec<String> = vec!["CMD".into(), "SP".into(), "SL".into()];
    if rng.bool() {
        b.push("RAD".into());
    }
    b.push(pick(rng, &["R1", "R2", "ALT:R1", "ALT:R2"]));
    b.push("NUL".into());
    match rng.u8(..4) {
        0 => {}
        1 => b.extend(["HOST", "NAME", "NUL"].map(String::from)),
        2 => b.extend(["HOST", "NAME", "COLON", "PORT", "NUL"].map(String::from)),
        _ => b.extend(["HOST", "NUL"].map(String::from)),
    }
    if rng.u8(..4) > 0 {
        b.push("NUL".into());
        for _ in 0..rng.usize(1..4) {
            b.push(pick(rng, &["V2", "V2", "V1", "KV", "KEY", "VER"]));
            if rng.u8(..8) == 0 {
                b.push(pick(rng, TOKENS));
            }
            b.push("NUL".into());
        }
    }
    for _ in 0..rng.usize(..4) {
        let i = rng.usize(..=b.len());
        match rng.u8(..4) {
            0 => b.insert(i, pick(rng, TOKENS)),
            1 if i < b.len() => {
                b.remove(i);
            }
            2 if i < b.len() => b[i] = pick(rng, TOKENS),
            3 if i + 1 < b.len() => b.swap(i, i + 1),
            _ => {}
        }
    }
    b
}

fn mode_record_hdr(args: &Args) {
    let n = args.num("--n", 1000) as usize;
    let mut out = Out::create(Path::new(args.req("--out")));
    let mut rng = fastrand::Rng::with_seed(seed().wrapping_mul(0x9e37_79b9_7f4a_7c15) ^ 0xc12);
    let (r1, r2) = (rid_from(&mut rng), rid_from(&mut rng));
    let ids = Ids(vec![("R1".into(), r1), ("R2".into(), r2)]);
    for _ in 0..n {
        let body = random_body(&mut rng);
        let len = if rng.u8(..10) < 7 { "exact" } else { LENS[rng.usize(..LENS.len())] };
        let bytes = header_bytes(len, &body_bytes(&body, &ids));
        let p = run_parser(&bytes);
        out.emit(&json!({"k": "hdr", "len": len, "body": body, "res": res_json(&p, &ids)}));
    }
    out.finish();
}

// ------------------------------------------------------------------------------------------------
// fuzz mode (C13, header part): raw bytes

fn len_class_of(bytes: &[u8]) -> String {
    if bytes.len() < 4 {
        return "noprefix".into();
    }
    let Ok(s) = std::str::from_utf8(&bytes[..4]) else { return "nonutf8".into() };
    match usize::from_str_radix(s, 16) {
        Err(_) => "nonhex".into(),
        Ok(n) if n < 4 => "lt4".into(),
        Ok(4) => "eq4".into(),
        Ok(n) if n > 1024 => "gt1024".into(),
        Ok(n) if n > bytes.len() => "short".into(),
        Ok(n) if n < bytes.len() => "long".into(),
        Ok(_) => "exact".into(),
    }
}

fn mode_fuzz(args: &Args) {
    let n = args.num("--n", 10000) as usize;
    let mut out = Out::create(Path::new(args.req("--out")));
    let mut rng = fastrand::Rng::with_seed(seed().wrapping_mul(0x9e37_79b9_7f4a_7c15) ^ 0xc13);
    let rid = rid_from(&mut rng);
    let honest = {
        let b = format!("git-upload-pack /{}\0host=seed.example:8776\0\0version=2\0", rid.canonical());
        format!("{:04x}{b}", b.len() + 4).into_bytes()
    };
    const EDGE_LENS: &[&str] = &[
        "0000", "0001", "0002", "0003", "0004", "0005", "03ff", "0400", "0401", "0402", "7fff", "8000", "fffe", "ffff", "FFFF", "-001",
        "+000", "+003", " 004", "0x10", "00 4", "\u{0}\u{0}\u{0}\u{0}", "१२३४",
    ];
    let mut by_class: BTreeMap<String, (usize, usize, usize)> = BTreeMap::new(); // ok, err, panic
    let mut reported: HashMap<String, usize> = HashMap::new();
    for i in 0..n {
        let mut bytes: Vec<u8> = match rng.u8(..6) {
            0 => (0..rng.usize(..48)).map(|_| rng.u8(..)).collect(),
            1 => {
                // random hex length, random tail around the declared length
                let d = if rng.bool() { rng.usize(..1100) } else { rng.usize(..0x10000) };
                let mut v = format!("{d:04x}").into_bytes();
                let tail = match rng.u8(..4) {
                    0 => 0,
                    1 => d.saturating_sub(4),
                    2 => d.saturating_sub(4) / 2,
                    _ => d + rng.usize(..8),
                };
                v.extend((0..tail).map(|_| rng.u8(..)));
                v
            }
            2 => {
                // edge length fields in front of the honest body / nothing / padding
                let mut v = EDGE_LENS[rng.usize(..EDGE_LENS.len())].as_bytes().to_vec();
                match rng.u8(..3) {
                    0 => {}
                    1 => v.extend(&honest[4..]),
                    _ => v.extend(std::iter::repeat(b'a').take(rng.usize(..70000))),
                }
                v
            }
            _ => {
                // mutations of the honest header
                let mut v = honest.clone();
                for _ in 0..rng.usize(1..5) {
                    if v.is_empty() {
                        break;
                    }
                    let i = rng.usize(..v.len());
                    match rng.u8(..6) {
                        0 => v[i] = rng.u8(..),
                        1 => {
                            v.remove(i);
                        }
                        2 => v.insert(i, rng.u8(..)),
                        3 => v.truncate(i),
                        4 => v[i] ^= 1 << rng.u8(..8),
                        _ => {
                            let ins = ["\0", "\0\0", "=", ":", "/", "rad:", "host=", "é", "\u{10ffff}"][rng.usize(..9)];
                            for (k, b) in ins.bytes().enumerate() {
                                v.insert((i + k).min(v.len()), b);
                            }
                        }
                    }
                }
                if rng.u8(..4) == 0 && v.len() >= 4 {
                    // keep the length field consistent with the mutated body
                    let l = format!("{:04x}", v.len().min(0xffff));
                    v[..4].copy_from_slice(l.as_bytes());
                }
                v
            }
        };
        if i < EDGE_LENS.len() * 2 {
            // deterministic prefix: every edge length, alone and before the honest body
            bytes = EDGE_LENS[i / 2].as_bytes().to_vec();
            if i % 2 == 1 {
                bytes.extend(&honest[4..]);
            }
        }
        let class = len_class_of(&bytes);
        let p = run_parser(&bytes);
        let e = by_class.entry(class.clone()).or_default();
        match &p {
            Parsed::Ok(_) => e.0 += 1,
            Parsed::Err(..) => e.1 += 1,
            Parsed::Panic(m) => {
                e.2 += 1;
                let k = reported.entry(class.clone()).or_default();
                *k += 1;
                if *k <= 3 {
                    out.emit(&json!({"kind": "fuzz", "class": class, "panic": m, "bytes": hex(&bytes, 96), "len": bytes.len()}));
                }
            }
        }
    }
    let classes: BTreeMap<String, Value> =
        by_class.iter().map(|(k, (a, b, c))| (k.clone(), json!({"ok": a, "err": b, "panic": c}))).collect();
    out.emit(&json!({"summary": true, "mode": "fuzz", "evaluations": n, "classes": classes,
                     "panics": by_class.values().map(|v| v.2).sum::<usize>()}));
    out.finish();
}

// ------------------------------------------------------------------------------------------------
// e2e mode

/// Captures the responder-side result lines of `Wire::worker_result`
/// ("Peer <nid> failed to fetch <rid> from us: <err>" / "... fetched <rid> from us successfully").
struct Capture {
    lines: Mutex<Vec<String>>,
}
static CAPTURE: OnceLock<Capture> = OnceLock::new();

impl log::Log for Capture {
    fn enabled(&self, m: &log::Metadata) -> bool {
        m.target() == "wire" && m.level() <= log::Level::Info
    }
    fn log(&self, r: &log::Record) {
        if self.enabled(r.metadata()) {
            let s = r.args().to_string();
            if s.starts_with("Peer ") && s.contains(" from us") {
                self.lines.lock().unwrap().push(s);
            }
        }
    }
    fn flush(&self) {}
}

fn capture() -> &'static Capture {
    CAPTURE.get_or_init(|| Capture { lines: Mutex::new(vec![]) })
}

#[derive(Clone, Debug)]
struct Class {
    name: String, // "R<k>" in the trace
    def: String,
    pol: String,
    present: bool,
    docok: bool,
    private: bool,
    allow: Vec<String>,
    rid: Option<RepoId>,
    /// (readable, unreadable) identity heads, once an unreadable revision has been made
    heads: Option<(radicle::git::Oid, radicle::git::Oid)>,
}

impl Class {
    fn key(def: &str, pol: &str, present: bool, docok: bool, private: bool, allow: &[String]) -> String {
        if present {
            format!("{def}|{pol}|present|{}|{private}|{}", if docok { "doc-ok" } else { "doc-unreadable" }, allow.join("+"))
        } else {
            format!("{def}|{pol}|absent")
        }
    }
}

struct Obs {
    served_events: usize,
    transmitted: usize,
    ok: bool,
    had: bool,
    has: bool,
    responder_result: Option<String>,
    reason: String,
    ms: u128,
    inconclusive: Option<String>,
}

type NH = NodeHandle<MockSigner>;

fn ensure_connected(req: &mut NH, resp: &NH) {
    for _ in 0..3 {
        match req.handle.session(resp.id) {
            Ok(Some(s)) if s.is_connected() => return,
            _ => {
                req.connect(resp);
            }
        }
    }
}

fn do_fetch(resp: &NH, req: &mut NH, rid: RepoId, expect_served: bool) -> Obs {
    let cap = capture();
    let mut attempt = 0;
    loop {
        attempt += 1;
        ensure_connected(req, resp);
        let had = req.storage.contains(&rid).unwrap_or(false);
        let mark = cap.lines.lock().unwrap().len();
        let ev = resp.handle.events();
        let t = Instant::now();
        let res = req.handle.fetch(rid, resp.id, Duration::from_secs(20));
        let ms = t.elapsed().as_millis();
        let (ok, reason) = match &res {
            Ok(FetchResult::Success { .. }) => (true, String::new()),
            Ok(FetchResult::Failed { reason }) => (false, reason.clone()),
            Err(e) => (false, format!("handle error: {e}")),
        };
        // Everything the responder's worker emitted for this request was emitted before it returned
        // its result, i.e. before the `Close` that ended the requester's fetch.
        let mut served_events = 0;
        let mut transmitted = 0;
        let mut evidence: Option<String> = None;
        let mut subscriber_lost = false;
        let deadline = Instant::now() + Duration::from_millis(5000);
        let nid_s = req.id.to_string();
        let rid_s = rid.to_string();
        loop {
            loop {
                match ev.try_recv() {
                    Ok(Event::UploadPack(u)) => {
                        let (r, n, bytes) = match &u {
                            UploadPack::Done { rid, remote, .. } => (*rid, *remote, 0),
                            UploadPack::Error { rid, remote, .. } => (*rid, *remote, 0),
                            UploadPack::Write { rid, remote, .. } => (*rid, *remote, 1),
                            UploadPack::PackProgress { rid, remote, transmitted } => (*rid, *remote, *transmitted),
                        };
                        if r == rid && n == req.id && !matches!(u, UploadPack::Done { .. } | UploadPack::Error { .. }) {
                            served_events += 1;
                            transmitted = transmitted.max(bytes);
                        }
                    }
                    Ok(_) => {}
                    Err(crossbeam_channel::TryRecvError::Empty) => break,
                    Err(crossbeam_channel::TryRecvError::Disconnected) => {
                        subscriber_lost = true;
                        break;
                    }
                }
            }
            {
                let lines = cap.lines.lock().unwrap();
                for l in lines.iter().skip(mark) {
                    if l.contains(&nid_s) && l.contains(&rid_s) {
                        evidence = Some(l.clone());
                    }
                }
            }
            // A served request is over on the responder's side when `Wire::worker_result` has logged its
            // result (after the upload-pack threads have ended): wait for that, so that no late event of
            // this request can be attributed to the next one.
            if evidence.is_some() || subscriber_lost || Instant::now() > deadline {
                break;
            }
            std::thread::sleep(Duration::from_millis(20));
        }
        let has = req.storage.contains(&rid).unwrap_or(false);
        let served = served_events > 0;
        let mut inconclusive = None;
        if subscriber_lost {
            inconclusive = Some("event subscription dropped by the responder (channel full)".to_string());
        } else if !served && !ok && evidence.as_deref().map(|e| e.contains("failed to fetch")) != Some(true) {
            // neither data nor the responder's refusal was observed: the request may never have arrived
            inconclusive = Some(format!("no responder-side result observed; requester says: {reason}"));
        }
        let retry = attempt < 3 && (inconclusive.is_some() || (expect_served && served && !ok));
        if retry {
            std::thread::sleep(Duration::from_millis(300));
            continue;
        }
        return Obs { served_events, transmitted, ok, had, has, responder_result: evidence, reason, ms, inconclusive };
    }
}

fn mode_e2e(args: &Args) {
    let cases = read_ndjson(Path::new(args.req("--cases")));
    let mut out = Out::create(Path::new(args.req("--out")));
    let mut trace = Out::create(Path::new(args.req("--trace")));
    let base = Path::new(args.req("--dir"));
    let dyn_steps = args.num("--steps", 0) as usize;
    std::fs::create_dir_all(base).unwrap();
    log::set_logger(capture()).ok();
    log::set_max_level(log::LevelFilter::Info);
    let mut rng = fastrand::Rng::with_seed(seed().wrapping_mul(0x9e37_79b9_7f4a_7c15) ^ 0xe2e);
    let t0 = Instant::now();

    // --- classes and cells
    let cells: Vec<&Value> = cases.iter().filter(|c| c["k"] == "cell").collect();
    if cells.is_empty() {
        fatal("no cells");
    }
    let mut classes: Vec<Class> = vec![];
    let mut index: HashMap<String, usize> = HashMap::new();
    let mut todo: Vec<(usize, String, bool, Value)> = vec![]; // class, requester, expected served, case
    for c in &cells {
        let def = c["def"].as_str().unwrap();
        let pol = c["pol"]["R1"].as_str().unwrap();
        let present = c["present"]["R1"].as_bool().unwrap();
        let docok = c["docok"]["R1"].as_bool().unwrap_or(present);
        let private = c["private"]["R1"].as_bool().unwrap();
        let allow = strs(&c["allow"]["R1"]);
        let key = Class::key(def, pol, present, docok, private, &allow);
        let ci = *index.entry(key).or_insert_with(|| {
            classes.push(Class {
                name: format!("R{}", classes.len() + 3),
                def: def.into(),
                pol: pol.into(),
                present,
                docok,
                private,
                allow: allow.clone(),
                rid: None,
                heads: None,
            });
            classes.len() - 1
        });
        let dec = strs(&c["dec"]);
        let expect = dec == ["served"];
        let n = c["n"].as_str().unwrap().to_string();
        if !todo.iter().any(|(i, m, _, _)| *i == ci && *m == n) {
            todo.push((ci, n, expect, (*c).clone()));
        }
    }

    // --- nodes
    let mk = |alias: &str, policy: DefaultSeedingPolicy| {
        Node::init(base, Config { seeding_policy: policy, ..Config::test(Alias::new(alias)) })
    };
    let requesters: Vec<(String, Node<MockSigner>)> =
        ["D", "A", "O"].iter().map(|n| (n.to_string(), mk(&format!("req-{n}"), DefaultSeedingPolicy::Block))).collect();
    let did_of = |n: &str| -> Did { requesters.iter().find(|(m, _)| m == n).map(|(_, x)| Did::from(x.id)).unwrap() };
    let mut responders: Vec<(String, Node<MockSigner>)> = vec![];
    for def in ["block", "allow"] {
        if classes.iter().any(|c| c.def == def) {
            let p = if def == "allow" { DefaultSeedingPolicy::permissive() } else { DefaultSeedingPolicy::Block };
            responders.push((def.to_string(), mk(&format!("resp-{def}"), p)));
        }
    }
    // --- repositories (in parallel: `rad::init` is mostly child processes)
    {
        let jobs: Vec<(usize, Storage, Device<MockSigner>, Visibility)> = classes
            .iter()
            .enumerate()
            .filter(|(_, c)| c.present)
            .map(|(i, c)| {
                let (_, node) = responders.iter().find(|(d, _)| *d == c.def).unwrap();
                let vis = if c.private { Visibility::private(c.allow.iter().map(|a| did_of(a))) } else { Visibility::Public };
                (i, node.storage.clone(), node.signer.clone(), vis)
            })
            .collect();
        let delegate = did_of("D");
        let results: Mutex<Vec<(usize, RepoId)>> = Mutex::new(vec![]);
        let queue = Mutex::new(jobs);
        std::thread::scope(|s| {
            for _ in 0..4 {
                s.spawn(|| loop {
                    let job = queue.lock().unwrap().pop();
                    let Some((i, storage, signer, vis)) = job else { break };
                    let rid = project(&storage, &signer, &format!("c12-class-{i}"), vis, &[delegate]);
                    results.lock().unwrap().push((i, rid));
                });
            }
        });
        for (i, rid) in results.into_inner().unwrap() {
            classes[i].rid = Some(rid);
        }
    }
    for c in classes.iter_mut() {
        if !c.present {
            c.rid = Some(radicle::test::arbitrary::gen(1));
        }
    }
    // --- policies
    for c in classes.iter_mut() {
        let (_, node) = responders.iter_mut().find(|(d, _)| *d == c.def).unwrap();
        let rid = c.rid.unwrap();
        match c.pol.as_str() {
            "allow" => {
                node.policies.set_seed_policy(&rid, Policy::Allow).unwrap();
            }
            "block" => {
                node.policies.set_seed_policy(&rid, Policy::Block).unwrap();
            }
            _ => {
                node.policies.unseed(&rid).unwrap();
            }
        }
        // the set-up is what the model says it is
        if c.present {
            let doc = node.storage.repository(rid).unwrap().identity_doc().unwrap();
            if doc.is_private() != c.private {
                fatal("set-up: visibility mismatch");
            }
            if !c.docok {
                // one kind of damage per class: unsupported version for private repositories without an allow
                // list, a corrupt document for those with one, a dangling rad/id for public ones
                let kind = if !c.private { "nodoc" } else if c.allow.is_empty() { "v2" } else { "corrupt" };
                let (good, bad) = unreadable_revision(&node.storage, rid, kind);
                set_identity_head(&node.storage, rid, bad, false);
                c.heads = Some((good, bad));
            }
        } else if node.storage.contains(&rid).unwrap_or(true) {
            fatal("set-up: absent repository exists");
        }
    }
    let setup_ms = t0.elapsed().as_millis();
    // --- run
    let mut req_handles: Vec<(String, NH)> = requesters.into_iter().map(|(n, x)| (n, x.spawn())).collect();
    let mut inconclusive: Vec<String> = vec![];
    let (mut n_served, mut n_refused, mut n_cells) = (0usize, 0usize, 0usize);
    let mut current: HashMap<String, String> = classes.iter().map(|c| (c.name.clone(), c.pol.clone())).collect();
    let mut doc_now: HashMap<String, bool> = classes.iter().map(|c| (c.name.clone(), c.docok)).collect();
    let mut heads: HashMap<String, (radicle::git::Oid, radicle::git::Oid)> =
        classes.iter().filter_map(|c| c.heads.map(|h| (c.name.clone(), h))).collect();
    for (def, node) in responders {
        let home = node.home.clone();
        let resp = node.spawn();
        let mut writer = home.policies_mut().unwrap_or_else(|e| fatal(&format!("policy store: {e}")));
        for (_, r) in req_handles.iter_mut() {
            r.connect(&resp);
        }
        let mine: Vec<&Class> = classes.iter().filter(|c| c.def == def).collect();
        let obj = |f: &dyn Fn(&Class) -> Value| -> Value {
            Value::Object(mine.iter().map(|c| (c.name.clone(), f(c))).collect())
        };
        trace.emit(&json!({"k": "world", "def": def,
            "pol": obj(&|c| json!(c.pol)), "present": obj(&|c| json!(c.present)), "docok": obj(&|c| json!(c.present && c.docok)),
            "private": obj(&|c| json!(c.private)),
            "allow": obj(&|c| json!(c.allow)), "delegates": obj(&|c| if c.present { json!(["D"]) } else { json!([]) })}));
        let mut seeded: HashMap<(String, String), ()> = HashMap::new();
        let mut one = |n: &str, c: &Class, expect: bool, reqs: &mut Vec<(String, NH)>| -> Obs {
            let (_, req) = reqs.iter_mut().find(|(m, _)| m == n).unwrap();
            let rid = c.rid.unwrap();
            if seeded.insert((n.to_string(), c.name.clone()), ()).is_none() {
                req.handle.seed(rid, Scope::All).unwrap_or_else(|e| fatal(&format!("seed: {e}")));
            }
            do_fetch(&resp, req, rid, expect)
        };
        // the decision table
        for (ci, n, expect, case) in todo.iter().filter(|(ci, ..)| classes[*ci].def == def) {
            let c = &classes[*ci];
            let o = one(n, c, *expect, &mut req_handles);
            n_cells += 1;
            let served = o.served_events > 0;
            let mut class = "ok";
            if let Some(why) = &o.inconclusive {
                class = "inconclusive";
                inconclusive.push(format!("{} n={n}: {why}", Class::key(&c.def, &c.pol, c.present, c.docok, c.private, &c.allow)));
            } else if !expect && (served || o.ok) {
                class = "served-although-not-allowed";
            } else if !expect && o.has && !o.had {
                class = "repository-present-after-refusal";
            } else if *expect && !served {
                class = "refused-although-allowed"; // over-refusal: drift, the statement does not forbid it
            } else if *expect && !o.ok {
                class = "served-but-requester-failed";
            }
            if served {
                n_served += 1;
            } else {
                n_refused += 1;
            }
            out.emit(&json!({"kind": "cell", "class": class, "def": c.def, "pol": c.pol, "present": c.present,
                "docok": c.present && c.docok, "private": c.private, "allow": c.allow, "n": n, "expected": case["dec"], "served": served,
                "events": o.served_events, "transmitted": o.transmitted, "requester_ok": o.ok, "had": o.had, "has": o.has,
                "responder_result": o.responder_result, "requester_reason": o.reason, "ms": o.ms as u64, "rid": c.rid.unwrap().to_string()}));
            if o.inconclusive.is_none() {
                trace.emit(&json!({"k": "fetch", "n": n, "rid": c.name, "served": served, "ok": o.ok, "had": o.had, "has": o.has}));
            }
        }
        // policies change underneath, requests keep coming
        for _ in 0..dyn_steps {
            let c = mine[rng.usize(..mine.len())];
            let what = rng.u8(..10);
            if what < 2 {
                // the identity head moves to a revision this node cannot read, or back
                if !c.present {
                    continue;
                }
                let rid = c.rid.unwrap();
                let (good, bad) = *heads.entry(c.name.clone()).or_insert_with(|| {
                    let kind = ["v2", "corrupt", "nodoc"][rng.usize(..3)];
                    unreadable_revision(&resp.storage, rid, kind)
                });
                let to_ok = !doc_now[&c.name];
                set_identity_head(&resp.storage, rid, if to_ok { good } else { bad }, to_ok);
                doc_now.insert(c.name.clone(), to_ok);
                trace.emit(&json!({"k": "doc", "rid": c.name, "ok": to_ok}));
            } else if what < 5 {
                let p = ["allow", "block", "none"][rng.usize(..3)];
                let rid = c.rid.unwrap();
                let r = match p {
                    "allow" => writer.set_seed_policy(&rid, Policy::Allow),
                    "block" => writer.set_seed_policy(&rid, Policy::Block),
                    _ => writer.unseed(&rid),
                };
                if let Err(e) = r {
                    fatal(&format!("policy write: {e}"));
                }
                current.insert(c.name.clone(), p.to_string());
                trace.emit(&json!({"k": "policy", "rid": c.name, "p": p}));
            } else {
                let n = ["D", "A", "O"][rng.usize(..3)];
                let pol = current[&c.name].as_str();
                let seeded_now = pol == "allow" || (pol == "none" && def == "allow");
                let visible = !c.private || n == "D" || c.allow.iter().any(|a| a == n);
                let expect = seeded_now && c.present && doc_now[&c.name] && visible;
                let o = one(n, c, expect, &mut req_handles);
                let served = o.served_events > 0;
                if let Some(why) = &o.inconclusive {
                    inconclusive.push(format!("dynamic {} n={n}: {why}", c.name));
                    continue;
                }
                if served {
                    n_served += 1;
                } else {
                    n_refused += 1;
                }
                trace.emit(&json!({"k": "fetch", "n": n, "rid": c.name, "served": served, "ok": o.ok, "had": o.had, "has": o.has}));
            }
        }
        drop(resp);
    }
    drop(req_handles);
    out.emit(&json!({"summary": true, "mode": "e2e", "cells": n_cells, "classes": classes.len(), "served": n_served,
                     "refused": n_refused, "inconclusive": inconclusive, "setup_ms": setup_ms as u64,
                     "total_ms": t0.elapsed().as_millis() as u64, "trace_records": trace.n}));
    out.finish();
    trace.finish();
}

fn main() {
    let args = Args::parse();
    if args.req("--mode") != "e2e" {
        quiet_panics();
    }
    match args.req("--mode") {
        "hdr" => mode_hdr(&args),
        "record-hdr" => mode_record_hdr(&args),
        "fuzz" => mode_fuzz(&args),
        "e2e" => mode_e2e(&args),
        m => fatal(&format!("unknown mode {m}")),
    }
}
