//! End-to-end engine for the freshness part of C12 (spec/ServeFresh.tla): three real nodes (owner,
//! seed, requester) with the real runtime -- reactor, wire, worker pool, fetch -- talking over
//! loopback sockets, as in the repository's own e2e tests (`radicle_node::test::environment`).
//! One behaviour of the model per process:
//!   edit v   the owner publishes an identity revision changing the visibility
//!   commit   the owner commits to the default branch
//!   pull     the seed fetches from the owner (the real worker `Handle::fetch`)
//!   block    the seed blocks the repository (`rad block`; its default policy is permissive)
//!   request  the requester fetches from the seed (the real `Worker::is_authorized` on the seed);
//!            "locked": while another connection holds the write lock of the seed's policy database
//!            for longer than the reader waits
//! Output (one JSON line): after every pull the visibility in the document at the seed's canonical
//! refs/rad/id, and the outcome of the request. Anything that does not work for reasons of the
//! environment (a fetch that fails where the model expects success) is reported as `inconclusive`,
//! never as an outcome.
use std::path::Path;
use std::time::Duration;

use hwv::*;
use radicle::identity::{Identity, Visibility};
use radicle::node::config::{DefaultSeedingPolicy, Relay};
use radicle::node::policy::store::Store as PolicyStore;
use radicle::node::policy::Policy;
use radicle::node::POLICIES_DB_FILE;
use radicle::node::{Alias, Config, FetchResult, Handle as _};
use radicle::storage::{ReadRepository, ReadStorage, SignRepository, WriteRepository};
use radicle_node::service::policy::Scope;
use radicle_node::test::environment::Node;

fn relay(alias: &'static str) -> Config {
    Config { relay: Relay::Always, ..Config::test(Alias::new(alias)) }
}

fn vis_of(doc: &radicle::identity::Doc, seed: &radicle::identity::Did, req: &radicle::identity::Did) -> String {
    match doc.visibility() {
        Visibility::Public => "public".into(),
        Visibility::Private { allow } => {
            if allow.contains(seed) && allow.contains(req) {
                "both".into()
            } else if allow.contains(seed) {
                "seed".into()
            } else {
                "other".into()
            }
        }
    }
}

fn main() {
    let args = Args::parse();
    let case: Value = serde_json::from_str(args.req("--case")).unwrap_or_else(|e| fatal(&format!("case: {e}")));
    let mut out = Out::create(Path::new(args.req("--out")));
    let timeout = Duration::from_secs(args.get("--timeout").and_then(|s| s.parse().ok()).unwrap_or(60));
    let tmp = tempfile::tempdir().unwrap();
    let mut alice = Node::init(tmp.path(), relay("alice"));
    // the seed is permissive: what it does not block explicitly, it serves
    // (one worker, so that the request made under the lock is handled by a worker whose database connection has
    // been used before: a fresh connection fails earlier, when it reads the schema, and that error is not the
    // one under test)
    let bob = Node::init(tmp.path(), Config { seeding_policy: DefaultSeedingPolicy::permissive(), workers: 1, ..relay("bob") });
    let policies_db = bob.home.node().join(POLICIES_DB_FILE);
    let eve = Node::init(tmp.path(), relay("eve"));
    let rid = alice.project("acme", "");
    let alice = alice.spawn();
    let mut bob = bob.spawn();
    let mut eve = eve.spawn();
    let bob_did: radicle::identity::Did = (*bob.signer.public_key()).into();
    let eve_did: radicle::identity::Did = (*eve.signer.public_key()).into();

    let mut seed_docs: Vec<Value> = Vec::new();
    let mut outcome = Value::Null;
    let mut inconclusive = Value::Null;

    // the seed starts with a clone of the public repository
    bob.handle.seed(rid, Scope::All).unwrap();
    bob.connect(&alice);
    match bob.handle.fetch(rid, alice.id, timeout) {
        Ok(FetchResult::Success { .. }) => {}
        r => inconclusive = json!(format!("initial clone: {r:?}")),
    }
    let mut commits = 0;
    if inconclusive.is_null() {
        for op in case["ops"].as_array().unwrap() {
            let name = op[0].as_str().unwrap();
            match name {
                "edit" => {
                    let v = op[1].as_str().unwrap();
                    let repo = alice.storage.repository(rid).unwrap();
                    let mut identity = Identity::load_mut(&repo).unwrap();
                    let doc = repo
                        .identity_doc()
                        .unwrap()
                        .doc
                        .with_edits(|doc| {
                            doc.visibility = match v {
                                "public" => Visibility::Public,
                                "seed" => Visibility::private([bob_did]),
                                _ => Visibility::private([bob_did, eve_did]),
                            };
                        })
                        .unwrap();
                    let rev = identity.update(format!("visibility {v}"), "", &doc, &alice.signer).unwrap();
                    repo.set_identity_head_to(rev).unwrap();
                    repo.sign_refs(&alice.signer).unwrap();
                }
                "commit" => {
                    commits += 1;
                    let repo = alice.storage.repository(rid).unwrap();
                    let raw = repo.raw();
                    let name = format!("refs/namespaces/{}/refs/heads/master", alice.id);
                    let parent = raw.find_commit(raw.refname_to_id(&name).unwrap()).unwrap();
                    let tree = parent.tree().unwrap();
                    let sig = git2::Signature::new("alice", "alice@example.com", &git2::Time::new(1514817556 + commits, 0)).unwrap();
                    raw.commit(Some(&name), &sig, &sig, &format!("commit {commits}"), &tree, &[&parent]).unwrap();
                    repo.sign_refs(&alice.signer).unwrap();
                    repo.set_head().unwrap();
                }
                "pull" => match bob.handle.fetch(rid, alice.id, timeout) {
                    Ok(FetchResult::Success { .. }) => {
                        let doc = bob.storage.repository(rid).unwrap().identity_doc().unwrap();
                        seed_docs.push(json!(vis_of(&doc.doc, &bob_did, &eve_did)));
                    }
                    r => {
                        inconclusive = json!(format!("pull: {r:?}"));
                        break;
                    }
                },
                "block" => {
                    PolicyStore::open(&policies_db).unwrap().set_seed_policy(&rid, Policy::Block).unwrap();
                }
                "request" => {
                    let locked = op.get(1).and_then(|x| x.as_str()) == Some("locked");
                    // Nb. once the requester seeds the repository its node may fetch it on its own (from the seed's
                    // inventory announcement): under "locked" it must not seed before the lock is held
                    eve.connect(&bob);
                    if !locked {
                        eve.handle.seed(rid, Scope::All).unwrap();
                    }
                    // another process writing to the seed's policy database: holds the lock until the request is over
                    // (at most 10 s; the reader waits 3 s)
                    if locked {
                        // prime the seed's worker: a request for a repository nobody has (refused after the policy lookup)
                        let bogus = radicle::identity::RepoId::from(radicle::git::Oid::from(git2::Oid::hash_object(git2::ObjectType::Blob, b"no such repository").unwrap()));
                        eve.handle.seed(bogus, Scope::All).unwrap();
                        let _ = eve.handle.fetch(bogus, bob.id, timeout);
                    }
                    let (ready_tx, ready_rx) = std::sync::mpsc::channel::<()>();
                    let (release_tx, release_rx) = std::sync::mpsc::channel::<()>();
                    let writer = locked.then(|| {
                        let path = policies_db.clone();
                        std::thread::spawn(move || {
                            let mut db = sqlite::Connection::open(path).unwrap();
                            db.set_busy_timeout(20_000).unwrap();
                            db.execute("BEGIN EXCLUSIVE").unwrap();
                            ready_tx.send(()).unwrap();
                            release_rx.recv_timeout(Duration::from_secs(10)).ok();
                            db.execute("ROLLBACK").unwrap();
                        })
                    });
                    if locked {
                        ready_rx.recv().unwrap();
                        eve.handle.seed(rid, Scope::All).unwrap();
                    }
                    let result = eve.handle.fetch(rid, bob.id, timeout);
                    release_tx.send(()).ok();
                    if let Some(w) = writer {
                        w.join().ok();
                    }
                    match result {
                        Ok(FetchResult::Success { .. }) => outcome = json!("served"),
                        Ok(FetchResult::Failed { reason }) => {
                            let has = eve.storage.contains(&rid).unwrap_or(false);
                            outcome = json!(if has { "served" } else { "refused" });
                            seed_docs.push(json!({"reason": reason}));
                        }
                        Err(e) => inconclusive = json!(format!("request: {e}")),
                    }
                }
                o => fatal(&format!("unknown op {o}")),
            }
        }
    }
    out.emit(&json!({"ops": case["ops"], "expect": case["expect"], "outcome": outcome, "seed_docs": seed_docs, "inconclusive": inconclusive}));
    out.finish();
    // the nodes shut down when dropped
    drop(eve);
    drop(bob);
    drop(alice);
}
