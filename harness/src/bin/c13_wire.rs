//! Wire-level engine (C13 control frames / frame bytes through the real `Wire`; C16 with the real
//! `Wire::worker_result` gate). The real `Wire<Database, MockStorage, MockSigner>` wraps the real
//! `Service`; peers are registered through the `verif_established` hook (the tail of the handshake)
//! and everything else goes through the public `reactor::Handler` / `Iterator` interface:
//!   bytes received from a peer  -> handle_transport_event(id, SessionEvent::Data(bytes))
//!   connection lost             -> handle_transport_event(id, SessionEvent::Terminated(..)) + verif_handover
//!   user fetch command          -> handle_command(Control::User(Command::Fetch(..)))
//!   worker result               -> handle_command(Control::Worker(TaskResult{..}))
//!   outbox translation          -> Iterator::next (Io::Fetch becomes a real Task on the worker
//!                                  channel, which this harness owns: it plays the worker pool)
//! The log has the format of c16_fetchsched so that spec/TraceFetchSched.tla validates it; a panic
//! anywhere is logged as the step's `panic`.
use std::collections::{HashMap, HashSet};
use std::net;
use std::path::Path;
use std::str::FromStr;

use cyphernet::addr::{HostName, NetAddr};
use hwv::*;
use netservices::resource::SessionEvent;
use radicle::crypto::test::signer::MockSigner;
use radicle::identity::doc::{RawDoc, Visibility};
use radicle::identity::project::Project;
use radicle::identity::{Did, DocAt, RepoId};
use radicle::node::config::PeerConfig;
use radicle::node::device::Device;
use radicle::node::{Alias, Database, Features, UserAgent};
use radicle::test::storage::MockStorage;
use radicle_node::prelude::{BoundedVec, LocalTime, NodeId, Timestamp};
use radicle_node::service::filter::Filter;
use radicle_node::service::message::*;
use radicle_node::service::policy::Scope;
use radicle_node::service::{self, Command, ServiceState};
use radicle_node::test::peer::{self, Peer};
use radicle_node::wire::verif::{Control as FrameControl, Frame, FrameData, StreamId};
use radicle_node::wire::{self, Control, Wire};
use radicle_node::worker::{FetchError, FetchRequest, FetchResult, Task, TaskResult};
use radicle_node::{Link, PROTOCOL_VERSION};
use reactor::{Handler, ResourceId, ResourceIdGenerator};

const T0: u64 = 1_700_000_000_000;

struct TaskInfo {
    repo: usize,
    peer: usize,
    stream: StreamId,
    /// the connection the wire started the task on
    session: ResourceId,
    finished: bool,
}

struct Conn {
    id: ResourceId,
    link: Link,
    /// streams we opened on this connection
    opened: u64,
}

struct World {
    wire: Wire<Database, MockStorage, MockSigner>,
    rx: crossbeam_channel::Receiver<Task>,
    held: Vec<Task>, // keep channels alive
    devices: Vec<Device<MockSigner>>,
    nids: Vec<NodeId>,
    rids: Vec<RepoId>,
    docs: Vec<DocAt>,
    npeers: usize,
    conns: HashMap<usize, Conn>,
    gone: Vec<ResourceId>,
    idgen: ResourceIdGenerator,
    tasks: Vec<TaskInfo>,
    responder_tasks: usize,
    /// responder tasks the wire handed to the worker pool: (peer, stream, finished)
    rtasks: Vec<(usize, StreamId, bool, ResourceId)>,
    /// all tasks in the order the worker pool received them: (is initiator, index into tasks / rtasks)
    alltasks: Vec<(bool, usize)>,
    new_fetches: Vec<Value>,
    /// control frames the wire sent during the step: [kind, stream id]
    sent_ctrl: Vec<Value>,
    ann_ts: u64,
    clock_ms: u64,
    _tmp: tempfile::TempDir,
}

impl World {
    fn new(run: &Value) -> Self {
        let npeers = run["peers"].as_u64().unwrap() as usize;
        let nrepos = run["repos"].as_u64().unwrap() as usize;
        let devices: Vec<Device<MockSigner>> = (0..=npeers).map(|i| Device::mock_from_seed([(i + 1) as u8; 32])).collect();
        let nids: Vec<NodeId> = devices.iter().map(|d| *d.public_key()).collect();
        let mut rids = Vec::new();
        let mut docs = Vec::new();
        for i in 0..nrepos {
            let project = Project::new(
                radicle::identity::project::ProjectName::from_str(&format!("repo{i}")).unwrap(),
                "verif".to_string(),
                radicle_git_ext::ref_format::refname!("master"),
            )
            .unwrap();
            let doc = RawDoc::new(project, vec![Did::from(nids[1])], 1, Visibility::Public).verified().unwrap();
            let (blob, _) = doc.encode().unwrap();
            rids.push(RepoId::from(blob));
            docs.push(DocAt { commit: blob, blob, doc });
        }
        let mut config = service::Config::test(Alias::from_str("alice").unwrap());
        config.peers = PeerConfig::Static;
        if let Some(c) = run["capacity"].as_u64() {
            config.limits.fetch_concurrency = c as usize;
        }
        let tmp = tempfile::TempDir::new().unwrap();
        let cfg = peer::Config {
            config,
            local_time: LocalTime::from_millis(T0 as u128),
            policy: Default::default(),
            signer: Device::mock_from_seed([1u8; 32]),
            rng: fastrand::Rng::with_seed(run["rng"].as_u64().unwrap_or(7)),
            tmp: tempfile::TempDir::new().unwrap(),
        };
        let mut alice = Peer::config("alice", [7, 7, 7, 7], MockStorage::empty(), cfg);
        for rid in &rids {
            alice.seed(rid, Scope::All).unwrap();
        }
        alice.initialize();
        let Peer { service, tempdir, .. } = alice;
        std::mem::forget(tempdir); // the database lives there; removed with the scratch dir
        let (tx, rx) = crossbeam_channel::unbounded::<Task>();
        let wire = Wire::new(service, tx, Device::mock_from_seed([1u8; 32]));
        World { wire, rx, held: Vec::new(), devices, nids, rids, docs, npeers, conns: HashMap::new(), gone: Vec::new(), idgen: ResourceIdGenerator::default(),
                tasks: Vec::new(), responder_tasks: 0, rtasks: Vec::new(), alltasks: Vec::new(), new_fetches: Vec::new(), sent_ctrl: Vec::new(), ann_ts: 10, clock_ms: T0, _tmp: tmp }
    }

    fn addr(&self, p: usize) -> NetAddr<HostName> {
        NetAddr::new(HostName::Ip(net::IpAddr::from([8, 8, 8, p as u8])), 8776)
    }

    fn node_ann(&mut self, p: usize) -> Message {
        self.node_ann_with(p, None)
    }

    /// Node announcement of peer p; `dns` = announce this DNS-typed host name instead of the IP address.
    fn node_ann_with(&mut self, p: usize, dns: Option<&str>) -> Message {
        self.ann_ts += 1;
        let msg: AnnouncementMessage = NodeAnnouncement {
            version: PROTOCOL_VERSION,
            features: Features::SEED,
            timestamp: Timestamp::from(LocalTime::from_millis((T0 + self.ann_ts) as u128)),
            alias: Alias::from_str(&format!("n{p}")).unwrap(),
            addresses: Some(match dns {
                Some(name) => radicle::node::Address::from(NetAddr { host: HostName::Dns(name.to_owned()), port: 8776 }),
                None => radicle::node::Address::from(net::SocketAddr::from(([8, 8, 8, p as u8], 8776))),
            })
            .into(),
            nonce: 0,
            agent: UserAgent::from_str("/radicle:test/").unwrap(),
        }
        .solve(0)
        .unwrap()
        .into();
        msg.signed(&self.devices[p]).into()
    }

    /// The frame link a peer uses for its own gossip/control stream ids: the opposite of ours.
    fn their_link(link: Link) -> Link {
        if link.is_inbound() { Link::Outbound } else { Link::Inbound }
    }

    /// What the reactor does after every handler call: drain the wire's action queue (which
    /// translates the service's outbox) and let the worker pool (us) pick up new tasks.
    fn pump(&mut self) {
        let mut n = 0;
        while let Some(action) = self.wire.next() {
            if let reactor::Action::Send(_, bytes) = &action {
                // what we write to the peer: record the control frames
                let mut cur = std::io::Cursor::new(bytes.as_slice());
                while (cur.position() as usize) < bytes.len() {
                    match <Frame<Message> as wire::Decode>::decode(&mut cur) {
                        Ok(Frame { data: FrameData::Control(c), .. }) => self.sent_ctrl.push(match c {
                            FrameControl::Open { stream } => json!(["open", u64::from(stream)]),
                            FrameControl::Close { stream } => json!(["close", u64::from(stream)]),
                            FrameControl::Eof { stream } => json!(["eof", u64::from(stream)]),
                        }),
                        Ok(_) => {}
                        Err(_) => break,
                    }
                }
            }
            n += 1;
            if n > 10_000 {
                break;
            }
        }
        while let Ok(task) = self.rx.try_recv() {
            match &task.fetch {
                FetchRequest::Initiator { rid, remote, .. } => {
                    let r = self.rids.iter().position(|x| x == rid).unwrap() + 1;
                    let p = self.nids.iter().position(|x| x == remote).unwrap();
                    if let Some(c) = self.conns.get_mut(&p) {
                        c.opened += 1;
                    }
                    self.tasks.push(TaskInfo { repo: r, peer: p, stream: task.stream, session: task.session, finished: false });
                    self.alltasks.push((true, self.tasks.len()));
                    self.new_fetches.push(json!([self.tasks.len(), r, p]));
                }
                FetchRequest::Responder { remote, .. } => {
                    self.responder_tasks += 1;
                    let p = self.nids.iter().position(|x| x == remote).unwrap();
                    self.rtasks.push((p, task.stream, false, task.session));
                    self.alltasks.push((false, self.rtasks.len()));
                }
            }
            self.held.push(task);
        }
    }

    /// A stream id as [side, n, kind] relative to a connection of ours with the given link.
    fn describe(link: Link, id: u64) -> Value {
        let ours = (id & 1) == if link.is_inbound() { 1 } else { 0 };
        let kind = ["control", "gossip", "git", "unknown"][((id >> 1) & 3) as usize];
        let side = if ours { "us" } else { "them" };
        json!([side, id >> 3, kind])
    }

    fn handover(&mut self, id: ResourceId) {
        self.wire.verif_handover(id);
        self.pump();
    }

    fn feed(&mut self, p: usize, bytes: Vec<u8>) {
        if let Some(c) = self.conns.get(&p) {
            let id = c.id;
            self.wire.handle_transport_event(id, SessionEvent::Data(bytes), reactor::Timestamp::now());
            self.pump();
        }
    }

    fn stream_of(&self, p: usize, class: &str, k: u64) -> Option<StreamId> {
        let c = self.conns.get(&p)?;
        let s = match class {
            // the id our next outgoing fetch on this connection will use
            "ours-next" => StreamId::git(c.link).nth(c.opened + 1).ok()?,
            "ours" => StreamId::git(c.link).nth(k).ok()?,
            "theirs" => StreamId::git(Self::their_link(c.link)).nth(k).ok()?,
            "gossip" => StreamId::gossip(c.link).nth(k).ok()?,
            "control" => StreamId::control(c.link).nth(k).ok()?,
            "unknown-kind" => {
                // kind bits 0b11
                let raw: u64 = (k << 3) | 0b110 | if c.link.is_inbound() { 1 } else { 0 };
                wire::deserialize::<StreamId>(&wire::serialize(&radicle_node::wire::verif::VarInt::new(raw).ok()?)).ok()?
            }
            _ => return None,
        };
        Some(s)
    }

    fn apply(&mut self, op: &Value) -> (Option<String>, Value, Value) {
        let mut a = op.as_array().unwrap().clone();
        // "wdone" g: the worker finishes the g-th task it received, whichever kind it is
        if a[0] == "wdone" {
            let g = a[1].as_u64().unwrap() as usize;
            a = match self.alltasks.get(g.wrapping_sub(1)) {
                Some((true, i)) => vec![json!("done"), json!(i), json!("ok")],
                Some((false, i)) => vec![json!("rdone"), json!(i)],
                None => vec![json!("rdone"), json!(0)],
            };
        }
        let name = a[0].as_str().unwrap().to_string();
        let us = |i: usize| a[i].as_u64().unwrap() as usize;
        let mut info = json!({});
        let res = guard(|| match name.as_str() {
            "connect" => {
                let p = us(1);
                if self.conns.contains_key(&p) {
                    return;
                }
                // the reactor hands dropped transports over promptly: no new session is established
                // while an old one is still waiting for its handover
                for id in std::mem::take(&mut self.gone) {
                    self.handover(id);
                }
                let link = if a.get(2).and_then(|x| x.as_str()) == Some("out") { Link::Outbound } else { Link::Inbound };
                let id = self.idgen.next();
                let addr = self.addr(p);
                self.wire.verif_established(id, self.nids[p], addr, link);
                self.conns.insert(p, Conn { id, link, opened: 0 });
                self.pump();
                let msg = self.node_ann(p);
                let bytes = Frame::gossip(Self::their_link(link), msg).to_bytes();
                self.feed(p, bytes);
            }
            "disconnect" => {
                // connection lost: the transport terminates, then the reactor hands it over
                let p = us(1);
                if let Some(c) = self.conns.remove(&p) {
                    self.wire.handle_transport_event(
                        c.id,
                        SessionEvent::Terminated(std::io::Error::from(std::io::ErrorKind::ConnectionReset)),
                        reactor::Timestamp::now(),
                    );
                    self.pump();
                    if a.get(2).and_then(|x| x.as_str()) == Some("late-handover") {
                        self.gone.push(c.id);
                    } else {
                        self.handover(c.id);
                    }
                }
            }
            "handover" => {
                for id in std::mem::take(&mut self.gone) {
                    self.handover(id);
                }
            }
            "fetch" => {
                let (tx, _rx) = crossbeam_channel::unbounded();
                self.wire.handle_command(Control::User(Command::Fetch(self.rids[us(1) - 1], self.nids[us(2)], std::time::Duration::from_secs(3), tx)));
                self.pump();
            }
            "annfetch" => {
                let p = us(2);
                self.ann_ts += 1;
                let inv = InventoryAnnouncement {
                    inventory: BoundedVec::try_from(vec![self.rids[us(1) - 1]]).unwrap(),
                    timestamp: Timestamp::from(LocalTime::from_millis((T0 + self.ann_ts) as u128)),
                };
                let msg: Message = AnnouncementMessage::from(inv).signed(&self.devices[p]).into();
                if let Some(c) = self.conns.get(&p) {
                    let bytes = Frame::gossip(Self::their_link(c.link), msg).to_bytes();
                    self.feed(p, bytes);
                }
            }
            "gossip" => {
                let p = us(1);
                let kind = a[2].as_str().unwrap();
                let msg: Message = match kind {
                    "subscribe" => Message::subscribe(Filter::default(), Timestamp::MIN, Timestamp::MAX),
                    "ping" => Message::Ping(Ping { ponglen: us(3) as u16, zeroes: ZeroBytes::new(0) }),
                    "pong" => Message::Pong { zeroes: ZeroBytes::new(us(3) as u16) },
                    // "node" [, dns name]: a node announcement, optionally with a DNS-typed address
                    _ => match a.get(3).and_then(|x| x.as_str()) {
                        Some(name) => self.node_ann_with(p, Some(name)),
                        None => self.node_ann(p),
                    },
                };
                if let Some(c) = self.conns.get(&p) {
                    let bytes = Frame::gossip(Self::their_link(c.link), msg).to_bytes();
                    self.feed(p, bytes);
                }
            }
            "ctrl" => {
                // control frame from peer p: open / close / eof of a stream id class
                let p = us(1);
                let what = a[2].as_str().unwrap();
                let class = a[3].as_str().unwrap();
                let k = a.get(4).and_then(|x| x.as_u64()).unwrap_or(1);
                if let (Some(stream), Some(c)) = (self.stream_of(p, class, k), self.conns.get(&p)) {
                    let ctrl = match what {
                        "open" => FrameControl::Open { stream },
                        "close" => FrameControl::Close { stream },
                        _ => FrameControl::Eof { stream },
                    };
                    let bytes = Frame::<Message>::control(Self::their_link(c.link), ctrl).to_bytes();
                    info = json!({"stream": u64::from(stream)});
                    self.feed(p, bytes);
                }
            }
            "git" => {
                let p = us(1);
                let class = a[2].as_str().unwrap();
                let k = a.get(3).and_then(|x| x.as_u64()).unwrap_or(1);
                let n = a.get(4).and_then(|x| x.as_u64()).unwrap_or(8) as usize;
                if let Some(stream) = self.stream_of(p, class, k) {
                    let bytes = Frame::<Message>::git(stream, vec![0x30; n]).to_bytes();
                    self.feed(p, bytes);
                }
            }
            "raw" => {
                let p = us(1);
                let hex = a[2].as_str().unwrap();
                let bytes: Vec<u8> = (0..hex.len() / 2).map(|i| u8::from_str_radix(&hex[2 * i..2 * i + 2], 16).unwrap()).collect();
                self.feed(p, bytes);
            }
            "done" => {
                let g = us(1);
                let result = a[2].as_str().unwrap_or("ok");
                if g == 0 || g > self.tasks.len() || self.tasks[g - 1].finished {
                    info = json!({"forwarded": false, "unknown": true});
                    return;
                }
                self.tasks[g - 1].finished = true;
                let (repo, peer, stream, session) = (self.tasks[g - 1].repo, self.tasks[g - 1].peer, self.tasks[g - 1].stream, self.tasks[g - 1].session);
                let res = match result {
                    "ok" => Ok(radicle_node::worker::fetch::FetchResult::new(self.docs[repo - 1].clone())),
                    "timeout" => Err(FetchError::Io(std::io::Error::from(std::io::ErrorKind::TimedOut))),
                    _ => Err(FetchError::Io(std::io::Error::from(std::io::ErrorKind::Other))),
                };
                // whether the real Wire forwards it is up to Wire::worker_result
                info = json!({"forwarded": true, "repo": repo, "peer": peer, "via": "wire"});
                self.wire.handle_command(Control::Worker(TaskResult {
                    remote: self.nids[peer],
                    result: FetchResult::Initiator { rid: self.rids[repo - 1], result: res },
                    stream,
                    session,
                }));
                self.pump();
            }
            "rdone" => {
                // the worker finishes the g-th responder task (an upload to the peer)
                let g = us(1);
                if g == 0 || g > self.rtasks.len() || self.rtasks[g - 1].2 {
                    info = json!({"unknown": true});
                    return;
                }
                self.rtasks[g - 1].2 = true;
                let (peer, stream, _, session) = self.rtasks[g - 1];
                self.wire.handle_command(Control::Worker(TaskResult {
                    remote: self.nids[peer],
                    result: FetchResult::Responder { rid: None, result: Ok(()) },
                    stream,
                    session,
                }));
                self.pump();
            }
            "idle" => {
                self.clock_ms += 31_000;
                self.wire.tick(reactor::Timestamp::from_millis(self.clock_ms as u128));
                self.wire.handle_timer();
                self.pump();
            }
            _ => fatal(&format!("unknown op {name}")),
        });
        (res.err(), info, Value::Array(a))
    }

    /// `op` is the effective operation (a `wdone` resolved to `done` / `rdone`), `src` the script's.
    fn observe(&mut self, op: &Value, src: &Value, panic: Option<String>, info: Value, out: &mut Out) -> bool {
        // translate the service's outbox through the real Wire, collect tasks from the worker channel,
        // complete the handover of peers the wire decided to drop -- until nothing more happens
        let mut panic = panic;
        let mut disc = Vec::new();
        for _round in 0..8 {
            if let Err(e) = guard(|| self.pump()) {
                panic = Some(match panic { Some(p) => format!("{p}; {e}"), None => e });
                break;
            }
            // peers the wire decided to disconnect (Disconnecting state): complete the handover
            let mut progressed = false;
            let ps: Vec<usize> = self.conns.keys().copied().collect();
            for p in ps {
                let id = self.conns[&p].id;
                if panic.is_none() && self.wire.verif_peer_state(id) == "disconnecting" {
                    self.conns.remove(&p);
                    if let Err(e) = guard(|| self.handover(id)) {
                        panic = Some(e);
                    }
                    disc.push(p);
                    progressed = true;
                }
            }
            if !progressed || panic.is_some() {
                break;
            }
        }
        let fetches = std::mem::take(&mut self.new_fetches);
        let svc = self.wire.verif_service();
        let mut table: Vec<(usize, usize)> = svc
            .fetching()
            .iter()
            .map(|(rid, st)| (self.rids.iter().position(|x| x == rid).unwrap() + 1, self.nids.iter().position(|x| *x == st.from).unwrap()))
            .collect();
        table.sort();
        let mut sess = Vec::new();
        for p in 1..=self.npeers {
            if let Some(s) = svc.sessions().get(&self.nids[p]) {
                let fetching: HashSet<RepoId> = match &s.state {
                    radicle::node::State::Connected { fetching, .. } => fetching.clone(),
                    _ => HashSet::new(),
                };
                let mut f: Vec<usize> = fetching.iter().map(|rid| self.rids.iter().position(|x| x == rid).unwrap() + 1).collect();
                f.sort();
                sess.push(json!([p, s.is_connected(), f, s.queue.len(), "x"]));
            }
        }
        // stream bookkeeping of every connection: [peer, link, seq, [registered stream ids]]
        let mut streams = Vec::new();
        for p in 1..=self.npeers {
            if let Some(c) = self.conns.get(&p) {
                if let Some((seq, ids)) = self.wire.verif_streams(c.id) {
                    let ids: Vec<Value> = ids.iter().map(|i| Self::describe(c.link, *i)).collect();
                    streams.push(json!([p, if c.link.is_inbound() { "in" } else { "out" }, seq, ids]));
                }
            }
        }
        // control frames written during the step, stream ids relative to the (single) peer's link
        let link1 = self.conns.values().next().map(|c| c.link).unwrap_or(Link::Inbound);
        let sent_ctrl: Vec<Value> = std::mem::take(&mut self.sent_ctrl)
            .iter()
            .map(|f| {
                let d = Self::describe(link1, f[1].as_u64().unwrap());
                json!([f[0], d[0], d[1], d[2]])
            })
            .collect();
        out.emit(&json!({"ev": "step", "op": op, "src": src, "fetches": fetches, "table": table, "sess": sess, "disc": disc, "streams": streams, "sent_ctrl": sent_ctrl,
            "info": info, "responder_tasks": self.responder_tasks, "panic": panic.clone().unwrap_or_default()}));
        panic.is_some()
    }
}

fn main() {
    let args = Args::parse();
    quiet_panics();
    let scripts = read_ndjson(Path::new(args.req("--scripts")));
    let mut out = Out::create(Path::new(args.req("--out")));
    for run in scripts {
        let mut w = World::new(&run);
        let cap = run["capacity"].as_u64().unwrap_or(1);
        out.emit(&json!({"ev": "init", "run": run["run"], "peers": w.npeers, "repos": w.rids.len(), "capacity": cap, "queuemax": 128}));
        for op in run["ops"].as_array().unwrap() {
            let (panic, info, eff) = w.apply(op);
            if w.observe(&eff, op, panic, info, &mut out) {
                break; // the node is gone after a panic
            }
        }
    }
    out.finish();
}
