//! C08 — a patch is merged only by a threshold of agreeing delegates (spec/Tracker.tla).
//! Same engine as c07_authz; the recorder is biased towards merge / lifecycle / redaction ops.
#[path = "../tracker.rs"]
mod tracker;

fn main() {
    tracker::main_with(true)
}
