//! C06 probe (temporary)
use hwv::cobworld::*;
use hwv::*;

fn main() {
    let args = Args::parse();
    quiet_panics();
    let kind = Kind::parse(args.get("--kind").unwrap_or("issue"));
    let work = std::env::current_dir().unwrap();
    let mut w = World::new(&work, kind);
    let g = GraphSpec { changes: vec![ChangeSpec { deps: vec![0], ts: 1, cls: "rejectLater".into(), tgt: 0 }] };
    let t = std::time::Instant::now();
    let oids = w.materialise(&g, 1, false);
    let labels = label_map(&oids);
    w.present(&[(0, oids[1])]);
    let a = w.eval(&labels, false);
    println!("{:?}", a.map(|o| o.map(|o| o.to_json().to_string())));
    w.present(&[(0, oids[0])]);
    let b = w.eval(&labels, false);
    println!("{:?}", b.map(|o| o.map(|o| o.to_json().to_string())));
    println!("{:?} stores={}", t.elapsed(), w.stores);
}
