//! C06 — rejected collaborative-object changes leave no trace. Binds spec/Cob.tla to the real
//! `cob::get` (ChangeGraph::evaluate's pruning, Dag::prune_by / remove, Issue::op, Patch::op).
//!
//! replay: every TLC case (change graph with payload classes: valid, reply to a concurrent comment,
//!   forged signature, refused single action, multi-action change whose later action is refused)
//!   is materialised as real change commits of a real issue or patch. For the whole graph and for
//!   some dependency-closed parts of it (what a replica may hold) the object is evaluated twice with
//!   the real code: from the tips of the loaded changes, and from the tips of the *history that
//!   evaluation returned* (the loaded changes minus the dropped ones -- same commits, fewer
//!   references). Gating (what the property states): the history contains no invalid change and no
//!   dependent of one, and exactly the others when validity is not state dependent
//!   (`cobworld::statement_check`); both evaluations give the identical object, history and tips.
//!   Informational: equality with the model's exact prediction (`drift`).
//! record: random larger graphs, free object ids (relabelled by rank), random partial closures; one
//!   ndjson record per evaluation pair (view, clean) for validation by spec/TraceCob.tla.
//! identity: the `Identity::op` leniency examined in DESIGN.md section 7 (a change answering
//!   `UnexpectedState` is kept when it has a concurrent change, even one that is pruned later),
//!   reproduced against a real identity object.
use std::collections::BTreeSet;
use std::path::Path;

use hwv::cobworld::*;
use hwv::*;
use radicle::git::Oid;

fn refs_for(tips: &[usize], oids: &[Oid]) -> Vec<(usize, Oid)> {
    tips.iter().enumerate().map(|(i, c)| (i, oids[*c])).collect()
}

/// Evaluate the change set `s` of `g` and its cleaned history. Returns the first view, or a failure
/// (category, detail).
fn check_closure(
    w: &mut World,
    g: &GraphSpec,
    oids: &[Oid],
    labels: &std::collections::HashMap<Oid, i64>,
    s: &BTreeSet<usize>,
    pruned_some: &mut bool,
) -> Result<Observed, (String, String)> {
    let tips = g.tips_of(s);
    if tips.len() > w.namespaces.len() {
        return Err(("skip".into(), "more tips than namespaces".into()));
    }
    w.present(&refs_for(&tips, oids));
    let a = match w.eval(labels, false) {
        Ok(Some(o)) => o,
        Ok(None) => return Err(("not-found".into(), "object not found".into())),
        Err(e) => return Err(("error".into(), e)),
    };
    if let Some(why) = statement_check(w.kind, g, s, &a) {
        return Err(("statement".into(), format!("{why}; observed {}", a.to_json())));
    }
    let h: BTreeSet<usize> = a.hist.iter().map(|x| *x as usize).collect();
    if h != *s {
        *pruned_some = true;
        w.present(&refs_for(&g.tips_of(&h), oids));
        let b = match w.eval(labels, false) {
            Ok(Some(o)) => o,
            Ok(None) => return Err(("not-found".into(), "cleaned history: object not found".into())),
            Err(e) => return Err(("error".into(), format!("cleaned history: {e}"))),
        };
        // full equality: the projection (thread/patch timeline, comments, title, labels, history,
        // tips), the serialised object, and the object's own PartialEq
        if a != b {
            let what = if a.timeline != b.timeline { "timeline" } else if a.to_json() != b.to_json() { "projection" } else if a.obj != b.obj { "object (PartialEq)" } else { "serialised object" };
            return Err((
                "trace-of-rejected-change".into(),
                format!("{what} differs; with the rejected changes: {}; history without them: {}", a.to_json(), b.to_json()),
            ));
        }
    }
    Ok(a)
}

fn shard(args: &Args) {
    die_with_parent();
    let cases = read_ndjson(Path::new(args.req("--cases")));
    let mut out = Out::create(Path::new(args.req("--out")));
    let kind = Kind::parse(args.get("--kind").unwrap_or("issue"));
    let nsub = args.num("--closures", 2) as usize;
    let work = std::env::current_dir().unwrap();
    let mut w = World::new(&work, kind);
    let mut rng = Rng(seed() ^ 0xC06);
    let (mut ngraphs, mut nclosures, mut drift, mut nontrivial, mut bad, mut skipped) = (0i64, 0i64, 0i64, 0i64, 0i64, 0i64);
    for case in cases {
        let g = GraphSpec::from_case(&case);
        let idx = case["_i"].as_u64().unwrap_or(0);
        if !(1..=g.m()).all(|k| World::supports(kind, g.cls(k))) {
            skipped += 1;
            continue;
        }
        ngraphs += 1;
        let oids = w.materialise(&g, idx + seed() * 7919, idx % 2 == 1);
        let labels = label_map(&oids);
        let all: BTreeSet<usize> = (0..=g.m()).collect();
        let mut sets = vec![all.clone()];
        let mut subs: Vec<BTreeSet<usize>> = g.down_sets().into_iter().filter(|s| s.len() > 1 && *s != all).collect();
        rng.shuffle(&mut subs);
        sets.extend(subs.into_iter().take(nsub));
        let mut pruned_some = false;
        for (si, s) in sets.iter().enumerate() {
            nclosures += 1;
            match check_closure(&mut w, &g, &oids, &labels, s, &mut pruned_some) {
                Ok(a) => {
                    if si == 0 {
                        if let Some(d) = model_diff(w.kind, &case, &a) {
                            drift += 1;
                            if drift <= 5 {
                                out.emit(&json!({"ok": true, "drift": true, "case": case, "detail": d}));
                            }
                        }
                    }
                }
                Err((cat, _)) if cat == "skip" => {}
                Err((cat, detail)) => {
                    bad += 1;
                    let classes: BTreeSet<&str> = s.iter().filter(|k| **k != 0).map(|k| g.cls(*k)).collect();
                    out.emit(&json!({"ok": false, "case": case, "kind": kind.name(), "closure": s, "category": cat,
                                     "sig": format!("{} {}: classes={:?}", kind.name(), cat, classes), "detail": detail}));
                    break;
                }
            }
        }
        if pruned_some {
            nontrivial += 1;
        }
    }
    out.emit(&json!({"summary": true, "graphs": ngraphs, "closures": nclosures, "evaluations": w.evals as i64,
                     "stores": w.stores as i64, "drift": drift, "nontrivial": nontrivial, "failures": bad, "skipped": skipped}));
    out.finish();
}

fn record(args: &Args) {
    let n = args.num("--n", 100) as usize;
    let mmax = args.num("--m", 8) as usize;
    let kind = Kind::parse(args.get("--kind").unwrap_or("issue"));
    let mut out = Out::create(Path::new(args.req("--out")));
    let work = std::env::current_dir().unwrap();
    let mut w = World::new(&work, kind);
    let mut rng = Rng(seed() ^ 0x5EED_C06);
    let classes = [
        ("ok", 24), ("guest", 4), ("label", 3), ("needs", 6), ("badSig", 2), ("rejectLater", 4),
        ("rf.redactMissing.d", 1), ("rf.redactMissing.g", 1), ("rf.editMissing.d", 2), ("rf.editMissing.g", 1),
        ("rf.reactMissing.d", 1), ("rf.reactMissing.g", 1), ("rf.replyMissing.d", 1), ("rf.replyMissing.g", 1),
        ("rf.badTitle.d", 1), ("rf.badTitle.g", 1), ("rf.label.g", 1),
    ];
    for gid in 0..n {
        let m = 4 + rng.below(mmax - 3);
        let g0 = random_graph(&mut rng, m, &classes, 14);
        let (oids0, rank) = w.materialise_free(&g0, gid as u64 + seed() * 104729);
        let g = relabel(&g0, &rank);
        let mut oids = vec![oids0[0]; m + 1];
        for k in 1..=m {
            oids[rank[k]] = oids0[k];
        }
        let labels = label_map(&oids);
        let nns = w.namespaces.len();
        // the whole graph when it has few enough tips, then random partial closures
        let mut targets: Vec<Vec<usize>> = Vec::new();
        if g.tips().len() <= nns {
            targets.push(g.tips());
        }
        for _ in 0..2 {
            let k = 1 + rng.below(nns.min(3));
            targets.push((0..k).map(|_| rng.below(m + 1)).collect());
        }
        let view = |o: &Observed| view_json(o, &rank);
        for t in targets {
            let t: Vec<usize> = t.into_iter().collect::<BTreeSet<_>>().into_iter().collect();
            w.present(&refs_for(&t, &oids));
            let mut r = g.to_json();
            r["gid"] = json!(gid);
            r["refs"] = json!(t);
            r["kind"] = json!(kind.name());
            match w.eval(&labels, false) {
                Ok(Some(a)) => {
                    r["view"] = view(&a);
                    let h: BTreeSet<usize> = a.hist.iter().filter(|x| **x >= 0).map(|x| *x as usize).collect();
                    w.present(&refs_for(&g.tips_of(&h), &oids));
                    match w.eval(&labels, false) {
                        Ok(Some(b)) => {
                            r["clean"] = view(&b);
                            if a.full != b.full || a.obj != b.obj {
                                r["clean"]["lww"] = json!(-5); // objects differ beyond the projection
                            }
                        }
                        other => {
                            r["clean"] = json!({"log": [], "comments": [], "lww": -3, "labels": -3, "hist": [], "tips": [], "error": format!("{:?}", other.err())});
                        }
                    }
                }
                Ok(None) => r["view"] = json!({"log": [], "comments": [], "lww": -2, "labels": -2, "hist": [], "tips": []}),
                Err(e) => r["view"] = json!({"log": [], "comments": [], "lww": -3, "labels": -3, "hist": [], "tips": [], "error": e}),
            }
            out.emit(&r);
        }
    }
    out.finish();
}

/// DESIGN.md section 7: `Identity::op` ignores `UnexpectedState` when the change has a concurrent
/// change in the graph -- `Dag::siblings_of` on the *current* graph, which still contains changes
/// that are pruned later. Real identity object of a real repository; X = a vote on the (accepted,
/// hence not votable) root revision by the delegate, Y = a concurrent change with a forged signature.
fn identity(args: &Args) {
    use nonempty::NonEmpty;
    use radicle::cob::identity;
    use radicle::cob::store::encoding::encode;
    use radicle::storage::git::Repository;
    use radicle::storage::ReadRepository;
    use radicle_cob::change::{Storage as _, Template};
    let mut out = Out::create(Path::new(args.req("--out")));
    let work = std::env::current_dir().unwrap();
    let w = World::new(&work, Kind::Issue);
    let repo: &Repository = &w.repo;
    let tn = identity::TYPENAME.clone();
    let root = repo.identity_root().expect("identity root");
    let object = radicle::cob::ObjectId::from(root);
    let action = encode(identity::Action::RevisionReject { revision: root }).expect("encode");
    let store = |forged: bool, nonce: u64| -> Oid {
        let t = Template {
            type_name: tn.clone(),
            tips: vec![root],
            message: format!("verif identity change n{nonce}"),
            embeds: vec![],
            contents: NonEmpty::new(action.clone()),
        };
        if forged { repo.store(None, vec![], &w.forger, t) } else { repo.store(None, vec![], &w.node.signer, t) }.expect("store").id
    };
    let x = store(false, 0);
    // Y below X in id order: X is evaluated first, while Y is still in the graph. Y2 above X.
    let y_lo = (1..10_000).map(|n| store(true, n)).find(|y| *y < x).expect("grind");
    let y_hi = (10_000..20_000).map(|n| store(true, n)).find(|y| *y > x).expect("grind");
    let eval = |refs: &[(usize, Oid)]| -> Value {
        w.present_for(&tn, &object, refs);
        match guard(|| radicle::cob::get::<identity::Identity, _>(repo, &tn, &object)) {
            Ok(Ok(Some(o))) => {
                let name = |o: &Oid| if *o == *object { "R" } else if *o == x { "X" } else if *o == y_lo || *o == y_hi { "Y" } else { "?" };
                let mut hist: Vec<&str> = o.history().graph().sorted().iter().map(|k| name(k)).collect();
                hist.sort();
                let full = serde_json::to_value(o.object()).unwrap_or(Value::Null);
                let timeline: Vec<&str> = full["timeline"].as_array().map(|a| a.iter().map(|v| {
                    let oid: Oid = v.as_str().unwrap().parse().unwrap();
                    name(&oid)
                }).collect()).unwrap_or_default();
                json!({"hist": hist, "timeline": timeline})
            }
            Ok(Ok(None)) => json!({"error": "not found"}),
            Ok(Err(e)) => json!({"error": e.to_string()}),
            Err(p) => json!({"error": format!("panic: {p}")}),
        }
    };
    let with_lo = eval(&[(0, x), (1, y_lo)]);
    let with_hi = eval(&[(0, x), (1, y_hi)]);
    let alone = eval(&[(0, x)]);
    out.emit(&json!({"identity_probe": true, "x_with_forged_sibling_evaluated_later": with_lo,
                     "x_with_forged_sibling_evaluated_earlier": with_hi, "x_alone": alone,
                     "differs": with_lo != alone}));
    out.finish();
}

/// A change commit without parent changes that is not the root of the object ("detached"): it is
/// loaded when a reference points at it (or at a descendant), but `ChangeGraph::evaluate` only
/// visits what descends from the root. What happens to it -- in particular when its signature is
/// forged -- is recorded here.
fn detached(args: &Args) {
    let mut out = Out::create(Path::new(args.req("--out")));
    let work = std::env::current_dir().unwrap();
    let mut w = World::new(&work, Kind::Issue);
    let root = w.root();
    let (ok1, _) = w.actions("ok", 1, None);
    let (ok2, _) = w.actions("ok", 2, None);
    let (ok3, _) = w.actions("ok", 3, None);
    let j = w.store(&[], 1, &ok1, 2, 1); // forged signature, no parents
    let a = w.store(&[root], 1, &ok2, 0, 2); // valid change on the root
    let c = w.store(&[a, j], 2, &ok3, 0, 3); // valid change on top of both
    let oids = vec![root, j, a, c];
    let labels = label_map(&oids);
    let mut eval = |refs: &[(usize, Oid)]| -> Value {
        w.present(refs);
        match w.eval(&labels, false) {
            Ok(Some(o)) => o.to_json(),
            Ok(None) => json!({"error": "not found"}),
            Err(e) => json!({"error": e}),
        }
    };
    let with_j = eval(&[(0, a), (1, j)]);
    let without_j = eval(&[(0, a)]);
    let child_of_j = eval(&[(0, c)]);
    let only_j = eval(&[(1, j)]);
    let forged_in_history = with_j["hist"].as_array().map(|h| h.contains(&json!(1))).unwrap_or(false)
        || child_of_j["hist"].as_array().map(|h| h.contains(&json!(1))).unwrap_or(false);
    out.emit(&json!({"detached_probe": true, "labels": {"0": "root", "1": "J detached, forged signature", "2": "A valid", "3": "C valid child of A and J"},
                     "refs_A_and_J": with_j, "refs_A": without_j, "refs_C": child_of_j, "refs_J_only": only_j,
                     "forged_change_in_history": forged_in_history}));
    out.finish();
}

fn main() {
    let args = Args::parse();
    quiet_panics();
    tune_malloc();
    match args.req("--mode") {
        "replay" => {
            let cases = read_ndjson(Path::new(args.req("--cases")));
            let work = std::env::current_dir().unwrap();
            let mut extra = Vec::new();
            for k in ["--kind", "--closures"] {
                if let Some(v) = args.get(k) {
                    extra.push(k.to_string());
                    extra.push(v.to_string());
                }
            }
            run_sharded(&cases, args.num("--procs", 6) as usize, "shard", &extra, &work, Path::new(args.req("--out")));
        }
        "shard" => shard(&args),
        "record" => record(&args),
        "identity" => identity(&args),
        "detached" => detached(&args),
        m => fatal(&format!("unknown mode {m}")),
    }
}
