//! C01 / C02 — fetch. Binds spec/Fetch.tla to `radicle_fetch::{clone, pull}`.
//!
//! A *scenario* (one initial state of Fetch.tla) is materialised with the real types:
//!   * a serving storage whose repository holds, for every namespace, all abstract sigrefs commits
//!     `(version, flavour)` of the model as real `rad/sigrefs` commits (refs blob + signature blob,
//!     signed with real Ed25519 keys; forged / re-keyed / other-repository / root-less / id-less /
//!     ghost-object flavours are written as raw commits), the identity commits `i1 i2 i2f`, the
//!     data commits `o1 o2 o3`; the references the serving peer advertises are rewritten per
//!     scenario (including unsigned extra refs, refs moved off their signed target, missing refs);
//!   * a fetching storage: empty (clone) or holding the scenario's local state (pull), built by
//!     copying exactly the objects reachable from the local references;
//!   * the real `radicle_fetch::clone` / `pull` is run over a `ConnectionStream` that talks to a
//!     child `git upload-pack` in the serving repository (what the node's responder does);
//!   * the fetcher's storage is projected (`references_of` per namespace, object ids mapped back to
//!     the model's names) and compared with the model's expected state and result variant;
//!     `Repository::remote` + `validate_remote` of the fetcher's repository is evaluated on every
//!     changed namespace as an independent oracle.
//!
//! modes: `replay` (cases from TLC, verdict records), `run` (print outcomes, for --replay and
//! probing), `record` (seeded random scenarios beyond the model's constants, ndjson trace for
//! TraceFetch.tla).
use std::collections::{BTreeMap, BTreeSet, HashMap, HashSet};
use std::io::{self, Read, Write};
use std::path::{Path, PathBuf};
use std::process::{Child, ChildStdin, ChildStdout, Command, Stdio};

use hwv::*;
use radicle::crypto::signature::Signer as _;
use radicle::crypto::test::signer::MockSigner;
use radicle::crypto::PublicKey;
use radicle::git::{Oid, RefString};
use radicle::identity::doc::RawDoc;
use radicle::identity::{Did, Project, RepoId, Visibility};
use radicle::node::device::Device;
use radicle::storage::git::{paths, Repository, Storage};
use radicle::storage::refs::{Refs, RefsAt};
use radicle::storage::{
    ReadRepository, RefUpdate, RemoteRepository, ValidateRepository, WriteRepository,
};
use radicle_fetch::transport::{ConnectionStream, SignalEof};
use radicle_fetch::{Allowed, BlockList, FetchLimit, FetchResult, Handle};

// ------------------------------------------------------------------------------------------
// Transport: a child `git upload-pack` exactly as radicle-node's responder spawns it.

struct HeaderStrip {
    inner: Option<ChildStdin>,
    hdr: Vec<u8>,
    skipped: bool,
}

impl Write for HeaderStrip {
    fn write(&mut self, buf: &[u8]) -> io::Result<usize> {
        let Some(inner) = self.inner.as_mut() else {
            return Err(io::Error::new(io::ErrorKind::BrokenPipe, "eof already signalled"));
        };
        if self.skipped {
            return inner.write(buf);
        }
        // The first pkt-line is the git-daemon style request header which the node's responder
        // consumes itself (`pktline::git_request`) before piping the rest to upload-pack.
        self.hdr.extend_from_slice(buf);
        if self.hdr.len() >= 4 {
            let len = std::str::from_utf8(&self.hdr[..4])
                .ok()
                .and_then(|s| usize::from_str_radix(s, 16).ok())
                .ok_or_else(|| io::Error::new(io::ErrorKind::InvalidData, "bad header length"))?;
            if self.hdr.len() >= len {
                let rest = self.hdr.split_off(len);
                self.skipped = true;
                inner.write_all(&rest)?;
            }
        }
        Ok(buf.len())
    }
    fn flush(&mut self) -> io::Result<()> {
        match self.inner.as_mut() {
            Some(i) => i.flush(),
            None => Ok(()),
        }
    }
}

impl SignalEof for HeaderStrip {
    type Error = io::Error;
    fn eof(&mut self) -> io::Result<()> {
        self.inner.take();
        Ok(())
    }
}

struct UploadPack {
    child: Child,
    stdin: HeaderStrip,
    stdout: ChildStdout,
}

impl UploadPack {
    fn spawn(git_dir: &Path) -> io::Result<Self> {
        let mut child = Command::new("git")
            .current_dir(git_dir)
            .env_clear()
            .envs(std::env::vars().filter(|(k, _)| k == "PATH"))
            .env("GIT_PROTOCOL", "version=2")
            .args([
                "-c",
                "uploadpack.allowAnySha1InWant=true",
                "-c",
                "uploadpack.allowRefInWant=true",
                "-c",
                "lsrefs.unborn=ignore",
                "upload-pack",
                "--strict",
                "--timeout=30",
                ".",
            ])
            .stdin(Stdio::piped())
            .stdout(Stdio::piped())
            .stderr(Stdio::null())
            .spawn()?;
        let stdin = child.stdin.take().expect("stdin");
        let stdout = child.stdout.take().expect("stdout");
        Ok(UploadPack { child, stdin: HeaderStrip { inner: Some(stdin), hdr: Vec::new(), skipped: false }, stdout })
    }
}

impl Drop for UploadPack {
    fn drop(&mut self) {
        self.stdin.inner.take();
        let _ = self.child.kill();
        let _ = self.child.wait();
    }
}

impl ConnectionStream for UploadPack {
    type Read = ChildStdout;
    type Write = HeaderStrip;
    type Error = io::Error;
    fn open(&mut self) -> Result<(&mut Self::Read, &mut Self::Write), Self::Error> {
        Ok((&mut self.stdout, &mut self.stdin))
    }
}

// Silence "unused" for Read import on some toolchains.
#[allow(dead_code)]
fn _assert_read<R: Read>(_: &R) {}

// ------------------------------------------------------------------------------------------
// Abstract vocabulary shared with Fetch.tla

const VERS: [&str; 3] = ["v1", "v2", "v2f"];
const FLAVOURS: [&str; 8] = ["ok", "forged", "rekeyed", "otherRepo", "noRoot", "noId", "ghost", "unqual"];

/// short name -> reference name below the namespace
fn full_name(short: &str) -> &'static str {
    match short {
        "ha" => "refs/heads/a",
        "hb" => "refs/heads/b",
        "cx" => "refs/cobs/xyz.verif.thing/1111111111111111111111111111111111111111",
        "tt" => "refs/tags/t",
        "id" => "refs/rad/id",
        "root" => "refs/rad/root",
        "zz" => "refs/heads/zzz",
        "uq" => "heads/unqualified",
        _ => fatal(&format!("unknown short ref name {short}")),
    }
}
const SHORTS: [&str; 8] = ["ha", "hb", "cx", "tt", "id", "root", "zz", "uq"];

fn short_name(full: &str) -> String {
    for s in SHORTS {
        if full_name(s) == full {
            return s.to_string();
        }
    }
    full.to_string()
}

/// `Listing(ver, fl)` of Fetch.tla: what the sigrefs commit `(ver, fl)` lists (short name -> abstract oid).
fn listing(ver: &str, fl: &str) -> BTreeMap<&'static str, &'static str> {
    let mut m: BTreeMap<&'static str, &'static str> = match ver {
        "v1" => [("ha", "o1"), ("hb", "o1"), ("id", "i1"), ("root", "r")].into_iter().collect(),
        "v2" => [("ha", "o2"), ("cx", "o1"), ("id", "i2"), ("root", "r")].into_iter().collect(),
        "v2f" => [("ha", "o3"), ("hb", "o2"), ("tt", "o1"), ("id", "i1"), ("root", "r")].into_iter().collect(),
        _ => fatal(&format!("unknown version {ver}")),
    };
    match fl {
        "ok" | "forged" | "rekeyed" => {}
        "otherRepo" => {
            m.insert("root", "rX");
        }
        "noRoot" => {
            m.remove("root");
        }
        "noId" => {
            m.remove("id");
        }
        "ghost" => {
            m.insert("ha", "og");
        }
        "unqual" => {
            m.insert("uq", "o1");
        }
        _ => fatal(&format!("unknown flavour {fl}")),
    }
    m
}

#[derive(Clone, Debug, PartialEq, Eq)]
struct SigC {
    ver: String,
    fl: String,
}
impl SigC {
    fn none() -> Self {
        SigC { ver: "none".into(), fl: "ok".into() }
    }
    fn is_none(&self) -> bool {
        self.ver == "none"
    }
    fn parse(v: &Value) -> Self {
        SigC { ver: v["ver"].as_str().unwrap_or("none").to_string(), fl: v["fl"].as_str().unwrap_or("ok").to_string() }
    }
    fn json(&self) -> Value {
        json!({"ver": self.ver, "fl": self.fl})
    }
}

#[derive(Clone, Debug)]
struct SrvNs {
    sig: SigC,
    rid: String,  // advertised rad/id: none | i1 | i2 | i2f
    junk: String, // none | extra | moved | missing  (tampering of plain data refs)
}

#[derive(Clone, Debug)]
struct Scenario {
    n: usize,
    mode: String,
    delegates: Vec<usize>,
    threshold: usize,
    local: usize,
    blocked: Vec<usize>,
    follow_all: bool,
    followed: Vec<usize>,
    refs_at: Option<Vec<(usize, String)>>,
    srv: Vec<SrvNs>,
    loc: Vec<SigC>,
    canon: bool,
}

fn usizes(v: &Value) -> Vec<usize> {
    v.as_array().map(|a| a.iter().map(|x| x.as_u64().unwrap() as usize).collect()).unwrap_or_default()
}

impl Scenario {
    fn parse(c: &Value) -> Self {
        let srv: Vec<SrvNs> = c["srv"]
            .as_array()
            .unwrap_or_else(|| fatal("scenario without srv"))
            .iter()
            .map(|s| SrvNs {
                sig: SigC::parse(&s["sig"]),
                rid: s["rid"].as_str().unwrap_or("none").to_string(),
                junk: s["junk"].as_str().unwrap_or("none").to_string(),
            })
            .collect();
        let loc: Vec<SigC> = c["loc"].as_array().unwrap_or_else(|| fatal("scenario without loc")).iter().map(SigC::parse).collect();
        let refs_at = if c["useRefsAt"].as_bool().unwrap_or(false) {
            Some(
                c["refsAt"]
                    .as_array()
                    .map(|a| a.iter().map(|r| (r["ns"].as_u64().unwrap() as usize, r["ver"].as_str().unwrap().to_string())).collect())
                    .unwrap_or_default(),
            )
        } else {
            None
        };
        Scenario {
            n: srv.len(),
            mode: c["mode"].as_str().unwrap_or("pull").to_string(),
            delegates: usizes(&c["delegates"]),
            threshold: c["threshold"].as_u64().unwrap_or(1) as usize,
            local: c["local"].as_u64().unwrap_or(0) as usize,
            blocked: usizes(&c["blocked"]),
            follow_all: c["followAll"].as_bool().unwrap_or(true),
            followed: usizes(&c["followed"]),
            refs_at,
            srv,
            loc,
            canon: c["canon"].as_bool().unwrap_or(true),
        }
    }
}

// ------------------------------------------------------------------------------------------
// The universe: every object the model talks about, as real git objects in the serving repository.

struct Universe {
    _tmp: tempfile::TempDir,
    dir: PathBuf,
    repo: Repository, // the serving peer's repository
    other: Repository, // another repository of the serving peer (source of `rX`)
    rid: RepoId,
    keys: Vec<Device<MockSigner>>, // namespace k = keys[k-1]; sorted by public key
    local_extra: Device<MockSigner>,
    server: Device<MockSigner>,
    rekey: Device<MockSigner>,
    objs: HashMap<&'static str, git2::Oid>,            // o1 o2 o3 i1 i2 i2f r rX og
    sigs: HashMap<(usize, String, String), git2::Oid>, // (ns, ver, fl) -> sigrefs commit
    names: HashMap<git2::Oid, String>,                 // reverse map for projections
    counter: usize,
}

fn sig_time() -> git2::Time {
    git2::Time::new(1514817556, 0)
}

fn mk_commit(raw: &git2::Repository, tree: git2::Oid, parents: &[git2::Oid], msg: &str) -> git2::Oid {
    let sig = git2::Signature::new("verif", "verif@example.com", &sig_time()).unwrap();
    let tree = raw.find_tree(tree).unwrap();
    let ps: Vec<git2::Commit> = parents.iter().map(|p| raw.find_commit(*p).unwrap()).collect();
    let prefs: Vec<&git2::Commit> = ps.iter().collect();
    raw.commit(None, &sig, &sig, msg, &tree, &prefs).unwrap()
}

impl Universe {
    fn build(work: &Path, n: usize, delegates: &[usize], threshold: usize) -> Self {
        let tmp = tempfile::Builder::new().prefix("uni").tempdir_in(work).expect("tempdir");
        let dir = tmp.path().to_path_buf();
        let mut keys: Vec<Device<MockSigner>> = (0..n).map(|i| Device::mock_from_seed([(i + 1) as u8; 32])).collect();
        keys.sort_by_key(|k| *k.public_key());
        let local_extra = Device::mock_from_seed([0xA0; 32]);
        let server = Device::mock_from_seed([0xB0; 32]);
        let rekey = Device::mock_from_seed([0xC0; 32]);
        let info = radicle::git::UserInfo { alias: radicle::node::Alias::new("server"), key: *server.public_key() };
        let storage = Storage::open(dir.join("srv"), info).expect("storage");
        let project = |name: &str| {
            Project::new(name.try_into().unwrap(), "verif".into(), radicle::git::refname!("master")).expect("project")
        };
        let dids: Vec<Did> = delegates.iter().map(|d| Did::from(*keys[*d - 1].public_key())).collect();
        let doc = RawDoc::new(project("verif"), dids.clone(), threshold, Visibility::Public).verified().expect("doc");
        let first = &keys[delegates[0] - 1];
        let (repo, root) = Repository::init(&doc, &storage, first).expect("init");
        let rid = repo.id;
        // Another repository's identity root (for sigrefs that name a different repository). Its
        // objects live in that other repository only.
        let doc2 = RawDoc::new(project("other"), dids, threshold, Visibility::Public).verified().expect("doc2");
        let (other, root2) = Repository::init(&doc2, &storage, first).expect("init2");
        let raw = repo.raw();
        // The identity COB references created by `init` are replaced by the plain layout below.
        let created: Vec<String> = raw.references().unwrap().filter_map(|r| r.ok().and_then(|r| r.name().map(|s| s.to_string()))).collect();
        // delete symbolic first
        for name in created.iter().filter(|n| n.ends_with("refs/rad/id")) {
            raw.find_reference(name).unwrap().delete().unwrap();
        }
        for name in created.iter().filter(|n| !n.ends_with("refs/rad/id")) {
            if let Ok(mut r) = raw.find_reference(name) {
                r.delete().unwrap();
            }
        }
        repo.set_identity_head_to(root).expect("canonical id");
        let mut objs: HashMap<&'static str, git2::Oid> = HashMap::new();
        let root: git2::Oid = *root;
        let root_tree = raw.find_commit(root).unwrap().tree_id();
        objs.insert("r", root);
        objs.insert("i1", root);
        objs.insert("i2", mk_commit(raw, root_tree, &[root], "identity i2"));
        objs.insert("i2f", mk_commit(raw, root_tree, &[root], "identity i2f"));
        let empty = raw.treebuilder(None).unwrap().write().unwrap();
        let o1 = mk_commit(raw, empty, &[], "data o1");
        objs.insert("o1", o1);
        objs.insert("o2", mk_commit(raw, empty, &[o1], "data o2"));
        objs.insert("o3", mk_commit(raw, empty, &[o1], "data o3"));
        objs.insert("rX", *root2);
        objs.insert("og", git2::Oid::from_str("00000000000000000000000000000000000a11ce").unwrap());
        let mut names: HashMap<git2::Oid, String> = HashMap::new();
        for (k, v) in &objs {
            if *k != "i1" {
                names.insert(*v, k.to_string());
            }
        }
        // `r` and `i1` are the same commit; the projection calls it by the name the slot expects.
        Universe { _tmp: tmp, dir, repo, other, rid, keys, local_extra, server, rekey, objs, sigs: HashMap::new(), names, counter: 0 }
    }

    /// The sigrefs commit `(ver, fl)` of namespace `ns`, created on first use.
    fn sig(&mut self, ns: usize, ver: &str, fl: &str) -> git2::Oid {
        let key = (ns, ver.to_string(), fl.to_string());
        if let Some(o) = self.sigs.get(&key) {
            return *o;
        }
        let parent = if ver == "v1" { None } else { Some(self.sig(ns, "v1", "ok")) };
        let oid = self.mk_sig(ns, ver, fl, parent);
        self.names.insert(oid, format!("{ver}.{fl}"));
        self.sigs.insert(key, oid);
        oid
    }

    fn pk(&self, ns: usize) -> PublicKey {
        *self.keys[ns - 1].public_key()
    }

    fn real_refs(&self, ver: &str, fl: &str) -> BTreeMap<RefString, Oid> {
        listing(ver, fl)
            .into_iter()
            .map(|(s, o)| (RefString::try_from(full_name(s)).unwrap(), Oid::from(self.objs[o])))
            .collect()
    }

    /// Write the `rad/sigrefs` commit `(ver, fl)` of namespace `ns` as a raw commit.
    fn mk_sig(&self, ns: usize, ver: &str, fl: &str, parent: Option<git2::Oid>) -> git2::Oid {
        let raw = self.repo.raw();
        let refs = Refs::from(self.real_refs(ver, fl));
        let canonical = refs.canonical();
        let signer = if fl == "rekeyed" { &self.rekey } else { &self.keys[ns - 1] };
        let signature: radicle::crypto::Signature = signer.try_sign(&canonical).expect("sign");
        let mut sig_bytes = signature.as_ref().to_vec();
        if fl == "forged" {
            sig_bytes[3] ^= 0x5a;
        }
        let refs_blob = raw.blob(&canonical).unwrap();
        let sig_blob = raw.blob(&sig_bytes).unwrap();
        let mut tb = raw.treebuilder(None).unwrap();
        tb.insert("refs", refs_blob, 0o100_644).unwrap();
        tb.insert("signature", sig_blob, 0o100_644).unwrap();
        let tree = raw.find_tree(tb.write().unwrap()).unwrap();
        let author = git2::Signature::new("radicle", &self.pk(ns).to_string(), &sig_time()).unwrap();
        let ps: Vec<git2::Commit> = parent.iter().map(|p| raw.find_commit(*p).unwrap()).collect();
        let prefs: Vec<&git2::Commit> = ps.iter().collect();
        raw.commit(None, &author, &author, "Update signed refs\n", &tree, &prefs).unwrap()
    }

    fn ns_ref(&self, ns: usize, name: &str) -> String {
        format!("refs/namespaces/{}/{}", self.pk(ns), name)
    }

    /// Rewrite what the serving peer advertises.
    fn set_server(&self, sc: &Scenario) {
        let raw = self.repo.raw();
        let names: Vec<String> = raw
            .references_glob("refs/namespaces/*")
            .unwrap()
            .filter_map(|r| r.ok().and_then(|r| r.name().map(|s| s.to_string())))
            .collect();
        for n in names {
            raw.find_reference(&n).unwrap().delete().unwrap();
        }
        match (sc.canon, raw.find_reference("refs/rad/id")) {
            (true, Err(_)) => {
                raw.reference("refs/rad/id", self.objs["r"], true, "verif").unwrap();
            }
            (false, Ok(mut r)) => r.delete().unwrap(),
            _ => {}
        }
        for (i, s) in sc.srv.iter().enumerate() {
            let ns = i + 1;
            if !s.sig.is_none() {
                let oid = self.sigs[&(ns, s.sig.ver.clone(), s.sig.fl.clone())];
                raw.reference(&self.ns_ref(ns, "refs/rad/sigrefs"), oid, true, "verif").unwrap();
                // Plain references as an honest owner of this listing would have them ...
                let mut actual: BTreeMap<&str, &str> =
                    listing(&s.sig.ver, &s.sig.fl).into_iter().filter(|(k, v)| *k != "id" && *k != "uq" && *v != "og").collect();
                // ... then tampered with by the serving peer.
                match s.junk.as_str() {
                    "none" => {}
                    "extra" => {
                        actual.insert("zz", "o2");
                    }
                    "moved" => {
                        let cur = actual.get("ha").copied().unwrap_or("o2");
                        actual.insert("ha", if cur == "o1" { "o3" } else { "o1" });
                    }
                    "missing" => {
                        actual.remove("ha");
                    }
                    j => fatal(&format!("unknown junk {j}")),
                }
                let odb = raw.odb().unwrap();
                for (k, v) in actual {
                    // objects the serving repository does not have (another repository's root,
                    // the ghost object) cannot be referenced there
                    if odb.exists(self.objs[v]) {
                        raw.reference(&self.ns_ref(ns, full_name(k)), self.objs[v], true, "verif").unwrap();
                    }
                }
            }
            if s.rid != "none" {
                raw.reference(&self.ns_ref(ns, "refs/rad/id"), self.objs[s.rid.as_str()], true, "verif").unwrap();
            }
        }
    }
}

fn copy_object(src: &git2::Repository, dst: &git2::Repository, oid: git2::Oid) {
    let dodb = dst.odb().unwrap();
    if dodb.exists(oid) {
        return;
    }
    let sodb = src.odb().unwrap();
    let obj = sodb.read(oid).unwrap_or_else(|e| fatal(&format!("copy_object {oid}: {e}")));
    match obj.kind() {
        git2::ObjectType::Commit => {
            let c = src.find_commit(oid).unwrap();
            copy_object(src, dst, c.tree_id());
            for p in c.parent_ids() {
                copy_object(src, dst, p);
            }
        }
        git2::ObjectType::Tree => {
            let t = src.find_tree(oid).unwrap();
            for e in t.iter() {
                copy_object(src, dst, e.id());
            }
        }
        _ => {}
    }
    dodb.write(obj.kind(), obj.data()).unwrap();
}

#[derive(Clone, Debug, PartialEq, Eq)]
struct NsProj {
    sig: String, // none | ver.fl | ?oid
    refs: BTreeMap<String, String>,
}

impl NsProj {
    fn json(&self) -> Value {
        json!({"sig": self.sig, "refs": self.refs})
    }
}

fn project(u: &Universe, repo: &Repository, n: usize) -> Vec<NsProj> {
    (1..=n)
        .map(|ns| {
            let refs = repo.references_of(&u.pk(ns)).unwrap_or_else(|e| fatal(&format!("references_of: {e}")));
            let mut p = NsProj { sig: "none".into(), refs: BTreeMap::new() };
            for (name, oid) in refs.iter() {
                let abs = u.names.get(&**oid).cloned().unwrap_or_else(|| format!("?{oid}"));
                if name.as_str() == "refs/rad/sigrefs" {
                    p.sig = abs;
                } else {
                    let short = short_name(name.as_str());
                    // `r` and `i1` are one commit: name it after the slot.
                    let abs = if abs == "r" && short == "id" { "i1".to_string() } else { abs };
                    p.refs.insert(short, abs);
                }
            }
            p
        })
        .collect()
}

struct Outcome {
    result: String,
    detail: String,
    before: Vec<NsProj>,
    after: Vec<NsProj>,
    applied: Vec<Value>,
    oracle: Vec<String>,
    valid_after: Vec<usize>, // namespaces whose sigrefs load + validate cleanly after the fetch
}

fn err_chain(e: &dyn std::error::Error) -> String {
    let mut s = e.to_string();
    let mut cur = e.source();
    while let Some(c) = cur {
        s.push_str(" <- ");
        s.push_str(&c.to_string());
        cur = c.source();
    }
    s
}

fn apply_event(u: &Universe, n: usize, up: &RefUpdate) -> Value {
    let (kind, name, new) = match up {
        RefUpdate::Updated { name, new, .. } => ("updated", name.to_string(), Some(*new)),
        RefUpdate::Created { name, oid } => ("created", name.to_string(), Some(*oid)),
        RefUpdate::Deleted { name, .. } => ("deleted", name.to_string(), None),
        RefUpdate::Skipped { name, oid } => ("skipped", name.to_string(), Some(*oid)),
    };
    let mut ns = 0;
    let mut short = name.clone();
    for k in 1..=n {
        let pre = format!("refs/namespaces/{}/", u.pk(k));
        if let Some(rest) = name.strip_prefix(&pre) {
            ns = k;
            short = if rest == "refs/rad/sigrefs" { "sig".to_string() } else { short_name(rest) };
        }
    }
    let abs = new.map(|o| u.names.get(&*o).cloned().unwrap_or_else(|| format!("?{o}")));
    if short == "sig" {
        // the model's event carries the sigrefs commit as a record
        let (ver, fl) = abs
            .as_deref()
            .and_then(|a| a.split_once('.'))
            .map(|(v, f)| (v.to_string(), f.to_string()))
            .unwrap_or(("?".into(), "?".into()));
        return json!({"k": kind, "ns": ns, "name": short, "to": "", "sig": {"ver": ver, "fl": fl}});
    }
    let to = abs.unwrap_or_else(|| "-".into());
    let to = if to == "r" && short == "id" { "i1".to_string() } else { to };
    json!({"k": kind, "ns": ns, "name": short, "to": to, "sig": {"ver": "none", "fl": "ok"}})
}

fn run_scenario(u: &mut Universe, sc: &Scenario) -> Outcome {
    u.counter += 1;
    // the sigrefs commits this scenario talks about
    for (i, s) in sc.srv.iter().enumerate() {
        if !s.sig.is_none() {
            u.sig(i + 1, &s.sig.ver, &s.sig.fl);
        }
    }
    for (i, l) in sc.loc.iter().enumerate() {
        if !l.is_none() {
            u.sig(i + 1, &l.ver, &l.fl);
        }
    }
    for (ns, ver) in sc.refs_at.iter().flatten() {
        u.sig(*ns, ver, "ok");
    }
    u.set_server(sc);
    let local_dev: &Device<MockSigner> = if sc.local == 0 { &u.local_extra } else { &u.keys[sc.local - 1] };
    let local_pk = *local_dev.public_key();
    let info = radicle::git::UserInfo { alias: radicle::node::Alias::new("fetcher"), key: local_pk };
    let ldir = u.dir.join(format!("loc{}", u.counter));
    let lstorage = Storage::open(&ldir, info.clone()).expect("local storage");
    let src = u.repo.raw();
    let (repo, _lock) = if sc.mode == "clone" {
        let (r, t) = lstorage.lock_repository(u.rid).expect("lock_repository");
        (r, Some(t))
    } else {
        let r = Repository::create(paths::repository(&lstorage, &u.rid), u.rid, &info).expect("create local");
        // canonical identity head, as a node sets it after a successful clone
        copy_object(src, r.raw(), u.objs["r"]);
        r.raw().reference("refs/rad/id", u.objs["r"], true, "verif").unwrap();
        // The fetcher also happens to have the objects of the *other* repository (as a node that
        // seeds both has, cf. test_rid_verification): sigrefs naming it then fail the identity
        // comparison itself rather than the object lookup. (A clone starts empty: lookup fails.)
        copy_object(u.other.raw(), r.raw(), u.objs["rX"]);
        for (i, l) in sc.loc.iter().enumerate() {
            if l.is_none() {
                continue;
            }
            let ns = i + 1;
            let s = u.sigs[&(ns, l.ver.clone(), l.fl.clone())];
            copy_object(src, r.raw(), s);
            r.raw().reference(&u.ns_ref(ns, "refs/rad/sigrefs"), s, true, "verif").unwrap();
            for (k, v) in listing(&l.ver, &l.fl) {
                copy_object(src, r.raw(), u.objs[v]);
                r.raw().reference(&u.ns_ref(ns, full_name(k)), u.objs[v], true, "verif").unwrap();
            }
        }
        (r, None)
    };
    let before = project(u, &repo, sc.n);
    let allowed = if sc.follow_all {
        Allowed::All
    } else {
        Allowed::Followed { remotes: sc.followed.iter().map(|k| u.pk(*k)).collect::<HashSet<_>>() }
    };
    let blocked = BlockList::from_iter(sc.blocked.iter().map(|k| u.pk(*k)));
    let refs_at: Option<Vec<RefsAt>> = sc.refs_at.as_ref().map(|v| {
        v.iter().map(|(ns, ver)| RefsAt { remote: u.pk(*ns), at: Oid::from(u.sigs[&(*ns, ver.clone(), "ok".to_string())]) }).collect()
    });
    let pipe = UploadPack::spawn(u.repo.path()).unwrap_or_else(|e| fatal(&format!("cannot spawn git upload-pack: {e}")));
    let mut handle = Handle::new(local_pk, repo, allowed, blocked, pipe).unwrap_or_else(|e| fatal(&format!("handle: {e}")));
    let server_pk = *u.server.public_key();
    let mode = sc.mode.clone();
    let res = guard(|| {
        if mode == "clone" {
            radicle_fetch::clone(&mut handle, FetchLimit::default(), server_pk)
        } else {
            radicle_fetch::pull(&mut handle, FetchLimit::default(), server_pk, refs_at)
        }
    });
    let mut applied = Vec::new();
    let (result, detail) = match res {
        Err(p) => ("Panic".to_string(), p),
        Ok(Err(e)) => ("Error".to_string(), err_chain(&e)),
        Ok(Ok(FetchResult::Failed { threshold, delegates, validations })) => (
            "Failed".to_string(),
            format!("threshold={threshold} failed_delegates={} validations={}", delegates.len(), validations.len()),
        ),
        Ok(Ok(FetchResult::Success { applied: ap, remotes, validations })) => {
            for up in &ap.updated {
                applied.push(apply_event(u, sc.n, up));
            }
            for rj in &ap.rejected {
                applied.push(json!({"k": "rejected", "name": rj.refname().to_string()}));
            }
            ("Success".to_string(), format!("remotes={} validations={}", remotes.len(), validations.len()))
        }
    };
    let repo = handle.repository();
    let after = project(u, repo, sc.n);
    // Independent oracle: the repository's own view of every namespace the fetch changed.
    let mut oracle = Vec::new();
    let mut valid_after = Vec::new();
    for ns in 1..=sc.n {
        let has = after[ns - 1].sig != "none";
        let clean = if has {
            match repo.remote(&u.pk(ns)) {
                Err(e) => Err(format!("ns{ns}: sigrefs do not load: {e}")),
                Ok(remote) => match repo.validate_remote(&remote) {
                    Err(e) => Err(format!("ns{ns}: validate_remote error: {e}")),
                    Ok(v) if v.is_empty() => Ok(()),
                    Ok(v) => Err(format!("ns{ns}: {}", v.iter().map(|x| x.to_string()).collect::<Vec<_>>().join("; "))),
                },
            }
        } else if after[ns - 1].refs.is_empty() {
            Ok(())
        } else {
            Err(format!("ns{ns}: references without rad/sigrefs"))
        };
        match clean {
            Ok(()) => {
                if has {
                    valid_after.push(ns)
                }
            }
            Err(m) => {
                if before[ns - 1] != after[ns - 1] {
                    oracle.push(m)
                }
            }
        }
    }
    drop(handle);
    let _ = std::fs::remove_dir_all(&ldir);
    Outcome { result, detail, before, after, applied, oracle, valid_after }
}

// ------------------------------------------------------------------------------------------

#[derive(Default)]
struct Cache {
    unis: HashMap<String, Universe>,
}

impl Cache {
    fn get(&mut self, work: &Path, sc: &Scenario) -> &mut Universe {
        let key = format!("{}|{:?}|{}", sc.n, sc.delegates, sc.threshold);
        self.unis.entry(key).or_insert_with(|| Universe::build(work, sc.n, &sc.delegates, sc.threshold))
    }
}

fn exp_loc(c: &Value) -> Vec<NsProj> {
    c["exp"]["loc"]
        .as_array()
        .unwrap_or_else(|| fatal("case without exp.loc"))
        .iter()
        .map(|l| {
            let s = SigC::parse(&l["sig"]);
            NsProj {
                sig: if s.is_none() { "none".into() } else { format!("{}.{}", s.ver, s.fl) },
                refs: l["refs"].as_object().map(|o| o.iter().map(|(k, v)| (k.clone(), v.as_str().unwrap_or("?").to_string())).collect()).unwrap_or_default(),
            }
        })
        .collect()
}

fn outcome_json(o: &Outcome) -> Value {
    json!({"result": o.result, "detail": o.detail,
           "before": o.before.iter().map(|p| p.json()).collect::<Vec<_>>(),
           "after": o.after.iter().map(|p| p.json()).collect::<Vec<_>>(),
           "applied": o.applied, "oracle": o.oracle, "validAfter": o.valid_after})
}

fn split<T>(items: Vec<T>, k: usize, key: impl Fn(&T) -> String) -> Vec<Vec<T>> {
    // keep scenarios that share a universe on one thread, balance otherwise
    let mut groups: BTreeMap<String, Vec<T>> = BTreeMap::new();
    for it in items {
        groups.entry(key(&it)).or_default().push(it);
    }
    let mut out: Vec<Vec<T>> = (0..k).map(|_| Vec::new()).collect();
    let mut gs: Vec<Vec<T>> = groups.into_values().collect();
    gs.sort_by_key(|g| std::cmp::Reverse(g.len()));
    for g in gs {
        // large groups are split further (a universe costs ~0.2 s to build)
        let chunks = (g.len() / 40).clamp(1, k);
        // round-robin, so that every part keeps the caller's priority order
        let mut parts: Vec<Vec<T>> = (0..chunks).map(|_| Vec::new()).collect();
        for (i, it) in g.into_iter().enumerate() {
            parts[i % chunks].push(it);
        }
        for part in parts {
            let tgt = out.iter_mut().min_by_key(|v| v.len()).unwrap();
            tgt.extend(part);
        }
    }
    out
}

fn uni_key(c: &Value) -> String {
    format!("{}|{}|{}", c["srv"].as_array().map(|a| a.len()).unwrap_or(0), c["delegates"], c["threshold"])
}

fn main() {
    let args = Args::parse();
    if std::env::var("HWV_PANICS").is_err() {
        quiet_panics();
    }
    let mode = args.req("--mode").to_string();
    let work = std::env::current_dir().unwrap();
    let nthreads = args.num("--threads", 8) as usize;
    match mode.as_str() {
        // ---------------------------------------------------------------- spec -> implementation
        "replay" | "run" => {
            let cases = read_ndjson(Path::new(args.req("--cases")));
            let out = PathBuf::from(args.req("--out"));
            let verbose = mode == "run";
            let budget = args.num("--budget-secs", 100_000);
            let t0 = std::time::Instant::now();
            let chunks = split(cases, nthreads, uni_key);
            let handles: Vec<_> = chunks
                .into_iter()
                .map(|chunk| {
                    let work = work.clone();
                    std::thread::spawn(move || {
                        let mut cache = Cache::default();
                        let mut recs: Vec<Value> = Vec::new();
                        let mut stats: BTreeMap<String, u64> = BTreeMap::new();
                        let mut done: Vec<u64> = Vec::new();
                        for c in chunk {
                            if t0.elapsed().as_secs() > budget {
                                *stats.entry("skipped_budget".into()).or_default() += 1;
                                continue;
                            }
                            let sc = Scenario::parse(&c);
                            let u = cache.get(&work, &sc);
                            let o = run_scenario(u, &sc);
                            *stats.entry(format!("result:{}", o.result)).or_default() += 1;
                            *stats.entry("evaluations".into()).or_default() += 1;
                            if let Some(i) = c["_i"].as_u64() {
                                done.push(i);
                            }
                            if o.before != o.after {
                                *stats.entry("changed".into()).or_default() += 1;
                            }
                            if verbose {
                                recs.push(json!({"case": c, "outcome": outcome_json(&o)}));
                                continue;
                            }
                            let exp = exp_loc(&c);
                            let exp_res = c["exp"]["result"].as_str().unwrap_or("?").to_string();
                            let state_ok = exp == o.after;
                            let res_ok = exp_res == o.result;
                            // order and kind of the applied updates: informational (drift)
                            let real_events: Vec<&Value> = o.applied.iter().filter(|e| e["k"] != "rejected").collect();
                            let exp_events: Vec<&Value> = c["exp"]["events"].as_array().map(|a| a.iter().collect()).unwrap_or_default();
                            let events_ok = o.result != "Success" || real_events == exp_events;
                            if !events_ok {
                                *stats.entry("event_drift".into()).or_default() += 1;
                            }
                            if !state_ok || !res_ok || !o.oracle.is_empty() {
                                recs.push(json!({"ok": false, "state_ok": state_ok, "result_ok": res_ok,
                                    "case": c, "outcome": outcome_json(&o)}));
                            } else if !events_ok && recs.len() < 20 {
                                recs.push(json!({"ok": true, "drift": "events", "case": c, "outcome": outcome_json(&o)}));
                            }
                        }
                        (recs, stats, done)
                    })
                })
                .collect();
            let mut o = Out::create(&out);
            let mut total: BTreeMap<String, u64> = BTreeMap::new();
            let mut done_ids: Vec<u64> = Vec::new();
            for h in handles {
                let (recs, stats, done) = h.join().unwrap_or_else(|_| fatal("worker thread panicked"));
                done_ids.extend(done);
                for r in recs {
                    o.emit(&r);
                }
                for (k, v) in stats {
                    *total.entry(k).or_default() += v;
                }
            }
            done_ids.sort();
            o.emit(&json!({"summary": true, "stats": total, "done": done_ids}));
            o.finish();
        }
        // ---------------------------------------------------------------- implementation -> spec
        "record" => {
            let n_runs = args.num("--n", 100) as usize;
            let nns = args.num("--ns", 4) as usize;
            let out = PathBuf::from(args.req("--out"));
            let mut rng = fastrand::Rng::with_seed(seed() ^ 0xfe7c);
            let scenarios: Vec<Value> = (0..n_runs).map(|_| random_scenario(&mut rng, nns)).collect();
            let budget = args.num("--budget-secs", 100_000);
            let t0 = std::time::Instant::now();
            let chunks = split(scenarios, nthreads, uni_key);
            let handles: Vec<_> = chunks
                .into_iter()
                .map(|chunk| {
                    let work = work.clone();
                    std::thread::spawn(move || {
                        let mut cache = Cache::default();
                        let mut recs = Vec::new();
                        for mut c in chunk {
                            if t0.elapsed().as_secs() > budget {
                                break;
                            }
                            let sc = Scenario::parse(&c);
                            let u = cache.get(&work, &sc);
                            let o = run_scenario(u, &sc);
                            let events: Vec<Value> = o.applied.iter().filter(|e| e["k"] != "rejected").cloned().collect();
                            let loc: Vec<Value> = o.after.iter().map(|p| json!({"sig": sig_record(&p.sig), "refs": p.refs})).collect();
                            c["out"] = json!({"result": o.result, "detail": o.detail, "loc": loc, "events": events,
                                              "oracle": o.oracle, "changed": o.before != o.after,
                                              "before": o.before.iter().map(|p| p.json()).collect::<Vec<_>>(),
                                              "after": o.after.iter().map(|p| p.json()).collect::<Vec<_>>(),
                                              "validAfter": o.valid_after});
                            recs.push(c);
                        }
                        recs
                    })
                })
                .collect();
            let mut o = Out::create(&out);
            for h in handles {
                for r in h.join().unwrap_or_else(|_| fatal("worker thread panicked")) {
                    o.emit(&r);
                }
            }
            o.finish();
        }
        _ => fatal("unknown mode"),
    }
}

fn sig_record(s: &str) -> Value {
    if s == "none" {
        return json!({"ver": "none", "fl": "ok"});
    }
    match s.split_once('.') {
        Some((v, f)) => json!({"ver": v, "fl": f}),
        None => json!({"ver": "?", "fl": s}),
    }
}

fn pick<'a>(rng: &mut fastrand::Rng, xs: &[&'a str]) -> &'a str {
    xs[rng.usize(0..xs.len())]
}

fn subset(rng: &mut fastrand::Rng, n: usize, p: f64) -> Vec<usize> {
    (1..=n).filter(|_| rng.f64() < p).collect()
}

/// A random scenario outside the bounded model's families: more namespaces, any delegate set,
/// independent tampering of every namespace.
fn random_scenario(rng: &mut fastrand::Rng, n: usize) -> Value {
    let clone = rng.f64() < 0.3;
    // a handful of identity documents, so that scenarios share universes (a universe = one real
    // repository identity with its keys)
    let docs: [(&[usize], usize); 8] =
        [(&[1], 1), (&[3], 1), (&[1, 2], 1), (&[1, 2], 2), (&[2, 4], 2), (&[1, 2, 3], 2), (&[2, 3, 4], 3), (&[1, 3, 4], 1)];
    let (ds, threshold) = docs[rng.usize(0..docs.len())];
    let delegates: Vec<usize> = ds.iter().copied().filter(|d| *d <= n).collect();
    let delegates = if delegates.is_empty() { vec![1] } else { delegates };
    let threshold = threshold.min(delegates.len());
    let local = if rng.f64() < 0.5 { 0 } else { rng.usize(1..=n) };
    let blocked = if rng.f64() < 0.25 { subset(rng, n, 0.3) } else { vec![] };
    let follow_all = rng.f64() < 0.75;
    let followed = subset(rng, n, 0.5);
    let use_refs_at = !clone && rng.f64() < 0.25;
    let refs_at: Vec<Value> = if use_refs_at {
        let mut v: Vec<usize> = subset(rng, n, 0.5);
        if v.is_empty() {
            v.push(rng.usize(1..=n));
        }
        v.into_iter().map(|ns| json!({"ns": ns, "ver": pick(rng, &VERS)})).collect()
    } else {
        vec![]
    };
    let mut srv = Vec::new();
    let mut loc = Vec::new();
    for _ in 0..n {
        let (sig, rid, junk);
        if rng.f64() < 0.2 {
            sig = json!({"ver": "none", "fl": "ok"});
            rid = if rng.f64() < 0.3 { pick(rng, &["i1", "i2", "i2f"]) } else { "none" }.to_string();
            junk = "none";
        } else {
            let ver = pick(rng, &VERS);
            let fl = if rng.f64() < 0.88 { "ok" } else { pick(rng, &["forged", "rekeyed", "otherRepo", "noRoot", "noId", "ghost"]) };
            let honest = listing(ver, fl).get("id").copied().unwrap_or("none");
            rid = if rng.f64() < 0.8 { honest } else { pick(rng, &["none", "i1", "i2", "i2f"]) }.to_string();
            junk = pick(rng, &["none", "none", "extra", "moved", "missing"]);
            sig = json!({"ver": ver, "fl": fl});
        }
        srv.push(json!({"sig": sig, "rid": rid, "junk": junk}));
        loc.push(if clone || rng.f64() < 0.3 { json!({"ver": "none", "fl": "ok"}) } else { json!({"ver": pick(rng, &VERS), "fl": "ok"}) });
    }
    json!({"mode": if clone { "clone" } else { "pull" }, "delegates": delegates, "threshold": threshold, "local": local,
           "blocked": blocked, "followAll": follow_all, "followed": followed, "useRefsAt": use_refs_at, "refsAt": refs_at,
           "canon": true, "srv": srv, "loc": loc})
}
