//! C27 — SSH agent client. Binds spec/SshAgent.tla to `radicle_ssh::agent::client::AgentClient`
//! (with `radicle_crypto::PublicKey` as the key type) through a mock `ClientStream` that answers
//! every request with the bytes of the case.
//!
//! replay: cases emitted by TLC ({op, resp: [bytes], out, errk, val}) — the reply bytes are fed
//!   verbatim; gating (property C27): the call returns `Ok` or `Err`, never panics; drift
//!   (informational): outcome, error class and value equal the model's.
//! record: random / mutated replies, logged as {op, resp, out, errk, val} for TraceSshAgent.tla.
//! roundtrip: PLAIN ROUND-TRIP TESTING (no model involved): keys and signatures written in the SSH
//!   wire encoding read back unchanged, directly and through the client with a mock agent.
use std::path::Path;

use hwv::*;
use radicle_crypto::{PublicKey, SecretKey, Signature};
use radicle_ssh::agent::client::{AgentClient, ClientStream, Error};
use radicle_ssh::agent::Constraint;
use radicle_ssh::encoding::{Buffer, Encodable, Reader};

struct Mock {
    reply: Vec<u8>,
}

impl ClientStream for Mock {
    fn connect<P>(_path: P) -> Result<AgentClient<Self>, Error>
    where
        P: AsRef<Path> + Send,
    {
        Err(Error::AgentFailure)
    }

    fn request(&mut self, _req: &[u8]) -> Result<Buffer, Error> {
        Ok(Buffer::new(self.reply.clone()))
    }
}

fn errk(e: &Error) -> &'static str {
    match e {
        Error::Encoding(_) => "encoding",
        Error::AgentFailure => "failure",
        Error::AgentProtocolError => "protocol",
        _ => "other",
    }
}

fn bytes(v: &[u8]) -> Value {
    json!(v.iter().map(|b| *b as u64).collect::<Vec<_>>())
}

/// Run one client call against a reply. Returns (out, errk, val) in the model's vocabulary.
fn call(op: &str, reply: &[u8], n: usize) -> (String, String, Value) {
    let pk = PublicKey::from([7u8; 32]);
    let r = guard(|| {
        let mut c = AgentClient::connect(Mock { reply: reply.to_vec() });
        match op {
            "identities" => c
                .request_identities::<PublicKey>()
                .map(|ks| json!(ks.iter().map(|k| bytes(k.as_ref())).collect::<Vec<_>>())),
            "sign" => c.sign(&pk, b"payload").map(|s| bytes(&s)),
            "query" => c.query_extension(b"session-bind@openssh.com", Buffer::default()).map(|b| json!([b])),
            "other" => {
                let sk = SecretKey::from([9u8; 64]);
                let cons = [
                    Constraint::KeyLifetime { seconds: 3 },
                    Constraint::Confirm,
                    Constraint::Extensions { name: b"x".to_vec(), details: b"y".to_vec() },
                ];
                match n % 10 {
                    0 => c.add_identity(&sk, &[]),
                    1 => c.add_identity(&sk, &cons),
                    2 => c.remove_identity(&pk),
                    3 => c.remove_all_identities(),
                    4 => c.lock(b"pw"),
                    5 => c.unlock(b"pw"),
                    6 => c.extension(b"t", b"e"),
                    7 => c.add_smartcard_key("id", b"1234", &[]),
                    8 => c.add_smartcard_key("id", b"1234", &cons),
                    _ => c.remove_smartcard_key("id", b"1234"),
                }
                .map(|()| json!([]))
            }
            _ => fatal("unknown op"),
        }
    });
    match r {
        Ok(Ok(v)) => ("ok".into(), "".into(), v),
        Ok(Err(e)) => ("err".into(), errk(&e).into(), json!([])),
        Err(p) => ("panic".into(), p, json!([])),
    }
}

fn u32be(n: u32) -> [u8; 4] {
    n.to_be_bytes()
}

fn ssh_string(v: &[u8]) -> Vec<u8> {
    let mut o = u32be(v.len() as u32).to_vec();
    o.extend_from_slice(v);
    o
}

fn main() {
    let args = Args::parse();
    quiet_panics();
    let mode = args.req("--mode").to_string();
    let mut o = Out::create(Path::new(args.req("--out")));
    match mode.as_str() {
        "replay" => {
            let cases = read_ndjson(Path::new(args.req("--cases")));
            let (mut evals, mut bad, mut drift, mut errs, mut oks, mut logged) = (0u64, 0u64, 0u64, 0u64, 0u64, 0);
            for (i, c) in cases.iter().enumerate() {
                let op = c["op"].as_str().unwrap();
                let resp: Vec<u8> = c["resp"].as_array().unwrap().iter().map(|b| b.as_u64().unwrap() as u8).collect();
                let (out, ek, val) = call(op, &resp, i);
                evals += 1;
                let ok = out != "panic";
                match out.as_str() {
                    "ok" => oks += 1,
                    "err" => errs += 1,
                    _ => bad += 1,
                }
                let is_drift = ok && (out != c["out"] || ek != c["errk"].as_str().unwrap_or("") || val != c["val"]);
                if is_drift {
                    drift += 1;
                }
                if !ok || (is_drift && logged < 50) {
                    if is_drift {
                        logged += 1;
                    }
                    o.emit(&json!({"ok": ok, "drift": is_drift, "op": op, "resp": c["resp"], "expected": {"out": c["out"], "errk": c["errk"], "val": c["val"]},
                        "actual": {"out": out, "errk": if ok { ek.clone() } else { "".into() }, "val": val}, "detail": if ok { "".into() } else { ek }}));
                }
            }
            o.emit(&json!({"summary": true, "evaluations": evals, "violations": bad, "drift": drift, "ok": oks, "err": errs}));
        }
        "record" => {
            let n = args.num("--n", 3000) as usize;
            let mut rng = fastrand::Rng::with_seed(seed());
            let blob = |k: u8, len: usize| -> Vec<u8> {
                let mut b = ssh_string(b"ssh-ed25519");
                b.extend(ssh_string(&vec![k; len]));
                b
            };
            for i in 0..n {
                // a plausible base message ...
                let mut m: Vec<u8> = match rng.u8(0..6) {
                    0 | 1 => {
                        let k = rng.usize(0..5);
                        let mut m = vec![12u8];
                        m.extend(u32be(k as u32));
                        for j in 0..k {
                            let b = match rng.u8(0..6) {
                                0 => blob(j as u8, 31),
                                1 => ssh_string(b"ecdsa-sha2-nistp256"),
                                2 => (0..rng.usize(0..60)).map(|_| rng.u8(..)).collect(),
                                _ => blob(j as u8 + 1, 32),
                            };
                            m.extend(ssh_string(&b));
                            m.extend(ssh_string(&vec![b'c'; rng.usize(0..12)]));
                        }
                        m
                    }
                    2 | 3 => {
                        let sl = [64usize, 64, 64, 0, 3, 63, 65, 100][rng.usize(0..8)];
                        let mut inner = ssh_string(if rng.bool() { b"ssh-ed25519" } else { b"rsa-sha2-512" });
                        inner.extend(ssh_string(&vec![rng.u8(..); sl]));
                        let mut m = vec![14u8];
                        m.extend(ssh_string(&inner));
                        m
                    }
                    4 => {
                        let mut m = vec![[5u8, 6, 28][rng.usize(0..3)]];
                        if rng.bool() {
                            m.extend(ssh_string(&vec![1; rng.usize(0..9)]));
                        }
                        m
                    }
                    _ => (0..rng.usize(0..80)).map(|_| rng.u8(..)).collect(),
                };
                // ... mutated
                for _ in 0..rng.usize(0..4) {
                    match rng.u8(0..6) {
                        0 if !m.is_empty() => m.truncate(rng.usize(0..=m.len())),
                        1 if !m.is_empty() => {
                            let p = rng.usize(0..m.len());
                            m[p] = rng.u8(..);
                        }
                        2 if m.len() >= 5 => {
                            // hit a 4-byte field with an interesting value
                            let p = rng.usize(0..m.len() - 3);
                            let v = [0u32, 1, 0xffff_ffff, 0x8000_0000, 64, 65, m.len() as u32][rng.usize(0..7)];
                            m[p..p + 4].copy_from_slice(&u32be(v));
                        }
                        3 => m.extend((0..rng.usize(0..6)).map(|_| rng.u8(..))),
                        4 if !m.is_empty() => {
                            m.remove(rng.usize(0..m.len()));
                        }
                        _ => {}
                    }
                }
                let op = ["identities", "identities", "sign", "sign", "query", "other"][rng.usize(0..6)];
                let (out, ek, val) = call(op, &m, i);
                let ek = if out == "panic" { String::new() } else { ek };
                o.emit(&json!({"op": op, "resp": bytes(&m), "out": out, "errk": ek, "val": val}));
            }
        }
        "roundtrip" => {
            // Plain round-trip testing of the Encodable impls (labelled as such in the evidence).
            let n = args.num("--n", 2000) as usize;
            let mut rng = fastrand::Rng::with_seed(seed());
            let mut fails: Vec<Value> = Vec::new();
            let (mut pk_n, mut sig_n, mut sk_n, mut via_client, mut pk_direct_ok) = (0u64, 0u64, 0u64, 0u64, 0u64);
            for _ in 0..n {
                let mut kb = [0u8; 32];
                rng.fill(&mut kb);
                let mut sb = [0u8; 64];
                rng.fill(&mut sb);
                let mut skb = [0u8; 64];
                rng.fill(&mut skb);
                let pk = PublicKey::from(kb);
                let sig = Signature::from(sb);
                let sk = SecretKey::from(skb);
                let r = guard(|| {
                    let mut fails = Vec::new();
                    // public key: `write` emits `string(blob)`; the reader side is `read_string` + `read`
                    let mut buf = Buffer::default();
                    pk.write(&mut buf);
                    let direct = PublicKey::read(&mut buf.reader(0)).map(|k| k == pk).unwrap_or(false);
                    let mut cur = buf.reader(0);
                    let framed = cur.read_string().ok().and_then(|b| PublicKey::read(&mut b.reader(0)).ok());
                    if framed != Some(pk) {
                        fails.push(json!({"what": "public key", "key": bytes(&kb)}));
                    }
                    // signature
                    let mut buf = Buffer::default();
                    sig.write(&mut buf);
                    if Signature::read(&mut buf.reader(0)).ok() != Some(sig) {
                        fails.push(json!({"what": "signature", "sig": bytes(&sb)}));
                    }
                    // secret key
                    let mut buf = Buffer::default();
                    sk.write(&mut buf);
                    if SecretKey::read(&mut buf.reader(0)).ok() != Some(sk.clone()) {
                        fails.push(json!({"what": "secret key"}));
                    }
                    // through the client: an agent that answers with what the writers produce
                    let mut ans = vec![12u8];
                    ans.extend(u32be(2));
                    for k in [&pk, &PublicKey::from([1u8; 32])] {
                        let mut b = Buffer::default();
                        k.write(&mut b);
                        ans.extend_from_slice(&b);
                        ans.extend(ssh_string(b"comment"));
                    }
                    let got = AgentClient::connect(Mock { reply: ans }).request_identities::<PublicKey>().ok();
                    if got != Some(vec![pk, PublicKey::from([1u8; 32])]) {
                        fails.push(json!({"what": "public key via request_identities", "key": bytes(&kb)}));
                    }
                    let mut resp = vec![14u8];
                    let mut b = Buffer::default();
                    sig.write(&mut b);
                    resp.extend_from_slice(&b);
                    let got = AgentClient::connect(Mock { reply: resp }).sign(&pk, b"x").ok();
                    if got != Some(sb) {
                        fails.push(json!({"what": "signature via sign", "sig": bytes(&sb)}));
                    }
                    (fails, direct)
                });
                match r {
                    Ok((f, direct)) => {
                        fails.extend(f);
                        pk_direct_ok += direct as u64;
                    }
                    Err(p) => fails.push(json!({"what": "panic", "detail": p})),
                }
                pk_n += 1;
                sig_n += 1;
                sk_n += 1;
                via_client += 2;
            }
            for f in fails.iter().take(20) {
                o.emit(&json!({"ok": false, "roundtrip": f}));
            }
            o.emit(&json!({"summary": true, "public_keys": pk_n, "signatures": sig_n, "secret_keys": sk_n, "via_client": via_client,
                "failures": fails.len(), "public_key_direct_read_of_write_ok": pk_direct_ok}));
        }
        _ => fatal("unknown mode"),
    }
    o.finish();
}
