fn main(){}
