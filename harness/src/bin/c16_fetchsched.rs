//! Fetch-scheduling engine (C16): drives the real `Service` with connect / disconnect / fetch
//! commands / inventory announcements and plays the worker pool: every `Io::Fetch` the service emits
//! becomes a task with a ghost id that the script completes later ("done"), possibly after its peer
//! disconnected and reconnected. The result is handed to `Service::fetched` under the rule of
//! `Wire::worker_result` (forwarded iff a peer with that node id is connected). After every step the
//! fetch table, the sessions' fetching sets and queue lengths, and the emitted fetches are logged
//! for validation by TLC against spec/TraceFetchSched.tla.
use std::collections::HashSet;
use std::net;
use std::path::Path;
use std::str::FromStr;

use hwv::*;
use radicle::crypto::test::signer::MockSigner;
use radicle::identity::doc::{RawDoc, Visibility};
use radicle::identity::project::Project;
use radicle::identity::{Did, DocAt, RepoId};
use radicle::node::config::PeerConfig;
use radicle::node::device::Device;
use radicle::node::{Alias, Features, UserAgent};
use radicle::test::storage::MockStorage;
use radicle_node::prelude::{BoundedVec, LocalDuration, LocalTime, NodeId, Timestamp};
use radicle_node::service::io::Io;
use radicle_node::service::message::*;
use radicle_node::service::policy::Scope;
use radicle_node::service::{self, Command, DisconnectReason, ServiceState};
use radicle_node::test::peer::{self, Peer};
use radicle_node::worker::fetch::FetchResult;
use radicle_node::worker::FetchError;
use radicle_node::{Link, PROTOCOL_VERSION};

const T0: u64 = 1_700_000_000_000;

struct Task {
    repo: usize,
    peer: usize,
    finished: bool,
    /// the connection the task was started on is gone (Wire::worker_result drops such results)
    stale: bool,
}

struct World {
    alice: Peer<MockStorage, MockSigner>,
    devices: Vec<Device<MockSigner>>,
    nids: Vec<NodeId>,
    rids: Vec<RepoId>,
    docs: Vec<DocAt>,
    npeers: usize,
    tasks: Vec<Task>,
    ann_ts: u64,
    chans: Vec<crossbeam_channel::Receiver<radicle::node::FetchResult>>,
    /// the direction of each peer's current connection as the wire knows it (not as the service recorded it)
    links: std::collections::HashMap<usize, Link>,
    /// peers the service asked the wire to dial (Io::Connect) whose dial has not completed or failed yet
    dial: HashSet<usize>,
}

impl World {
    fn new(run: &Value) -> Self {
        let npeers = run["peers"].as_u64().unwrap() as usize;
        let nrepos = run["repos"].as_u64().unwrap() as usize;
        let devices: Vec<Device<MockSigner>> = (0..=npeers).map(|i| Device::mock_from_seed([(i + 1) as u8; 32])).collect();
        let nids: Vec<NodeId> = devices.iter().map(|d| *d.public_key()).collect();
        let mut rids = Vec::new();
        let mut docs = Vec::new();
        for i in 0..nrepos {
            let project = Project::new(
                radicle::identity::project::ProjectName::from_str(&format!("repo{i}")).unwrap(),
                "verif".to_string(),
                radicle_git_ext::ref_format::refname!("master"),
            )
            .unwrap();
            let doc = RawDoc::new(project, vec![Did::from(nids[1])], 1, Visibility::Public).verified().unwrap();
            let (blob, _) = doc.encode().unwrap();
            rids.push(RepoId::from(blob));
            docs.push(DocAt { commit: blob, blob, doc });
        }
        let mut config = service::Config::test(Alias::from_str("alice").unwrap());
        config.peers = PeerConfig::Static;
        // persistent peers: dialled by initialize(), session kept while disconnected
        for p in run["persistent"].as_array().map(|a| a.to_vec()).unwrap_or_default() {
            let p = p.as_u64().unwrap() as usize;
            let addr = radicle::node::Address::from(net::SocketAddr::from(([8, 8, 8, p as u8], 8776)));
            config.connect.insert((nids[p], addr).into());
        }
        if let Some(c) = run["capacity"].as_u64() {
            config.limits.fetch_concurrency = c as usize;
        }
        let cfg = peer::Config {
            config,
            local_time: LocalTime::from_millis(T0 as u128),
            policy: Default::default(),
            signer: Device::mock_from_seed([1u8; 32]),
            rng: fastrand::Rng::with_seed(run["rng"].as_u64().unwrap_or(7)),
            tmp: tempfile::TempDir::new().unwrap(),
        };
        let mut alice = Peer::config("alice", [7, 7, 7, 7], MockStorage::empty(), cfg);
        for rid in &rids {
            alice.seed(rid, Scope::All).unwrap();
        }
        alice.initialize();
        // initialize() dials the configured peers
        let mut dial = HashSet::new();
        while let Some(io) = alice.service.next() {
            if let Io::Connect(nid, _) = io {
                if let Some(p) = nids.iter().position(|x| *x == nid) {
                    dial.insert(p);
                }
            }
        }
        World { alice, devices, nids, rids, docs, npeers, tasks: Vec::new(), ann_ts: 10, chans: Vec::new(), links: Default::default(), dial }
    }

    fn addr(&self, p: usize) -> radicle::node::Address {
        radicle::node::Address::from(net::SocketAddr::from(([8, 8, 8, p as u8], 8776)))
    }

    fn node_ann(&mut self, p: usize) -> Message {
        self.ann_ts += 1;
        let msg: AnnouncementMessage = NodeAnnouncement {
            version: PROTOCOL_VERSION,
            features: Features::SEED,
            timestamp: Timestamp::from(LocalTime::from_millis((T0 + self.ann_ts) as u128)),
            alias: Alias::from_str(&format!("n{p}")).unwrap(),
            addresses: Some(self.addr(p)).into(),
            nonce: 0,
            agent: UserAgent::from_str("/radicle:test/").unwrap(),
        }
        .solve(0)
        .unwrap()
        .into();
        msg.signed(&self.devices[p]).into()
    }

    fn apply(&mut self, op: &Value) -> (Option<String>, Value) {
        let a = op.as_array().unwrap().clone();
        let name = a[0].as_str().unwrap().to_string();
        let us = |i: usize| a[i].as_u64().unwrap() as usize;
        let mut info = json!({});
        let res = guard(|| match name.as_str() {
            "connect" => {
                let p = us(1);
                let addr = self.addr(p);
                let st = self.alice.service.sessions().get(&self.nids[p]).map(|s| (s.is_initial(), s.is_connecting()));
                let dialling = self.dial.contains(&p) && matches!(st, Some((true, _)) | Some((_, true)));
                // direction: as the script says; by default our own dial completes if one is under way,
                // otherwise the peer connected to us
                let link = match a.get(2).and_then(|x| x.as_str()) {
                    Some("out") => Link::Outbound,
                    Some("in") => Link::Inbound,
                    _ if dialling => Link::Outbound,
                    _ => Link::Inbound,
                };
                if self.links.contains_key(&p) || (link.is_outbound() && !dialling) {
                    info = json!({"skipped": true});
                    return;
                }
                if link.is_outbound() {
                    self.dial.remove(&p);
                }
                self.links.insert(p, link);
                info = json!({"dir": if link.is_inbound() { "in" } else { "out" }});
                self.alice.service.connected(self.nids[p], addr, link);
                let msg = self.node_ann(p);
                self.alice.service.received_message(self.nids[p], msg);
            }
            "dialfail" => {
                // our dial to p fails: the wire reports a disconnection of the outbound link
                let p = us(1);
                if !self.dial.remove(&p) {
                    info = json!({"skipped": true});
                    return;
                }
                let err: std::sync::Arc<dyn std::error::Error + Sync + Send> = std::sync::Arc::new(std::io::Error::from(std::io::ErrorKind::ConnectionRefused));
                self.alice.service.disconnected(self.nids[p], Link::Outbound, &DisconnectReason::Dial(err));
            }
            "attempted" => {
                let p = us(1);
                let addr = self.addr(p);
                // the wire only reports an attempt for a session it was asked to dial
                if self.dial.contains(&p) && self.alice.service.sessions().get(&self.nids[p]).map(|s| s.is_initial()).unwrap_or(false) {
                    self.alice.service.attempted(self.nids[p], addr);
                }
            }
            "wake" => {
                let now = *self.alice.service.clock() + LocalDuration::from_millis(a[1].as_u64().unwrap() as u128);
                self.alice.service.tick(now, &Default::default());
                self.alice.service.wake();
            }
            "disconnect" => {
                let p = us(1);
                let nid = self.nids[p];
                // the wire reports the link of the connection that went away
                let Some(link) = self.links.remove(&p) else {
                    info = json!({"skipped": true});
                    return;
                };
                // the connection is gone: results of its tasks belong to an earlier connection from now on
                for t in self.tasks.iter_mut().filter(|t| t.peer == p) {
                    t.stale = true;
                }
                self.alice.service.disconnected(nid, link, &DisconnectReason::Command);
            }
            "stale_disconnect" => {
                // the losing side of a connection conflict is torn down: a disconnection for a link
                // that is not the session's current link; the service must ignore it
                let p = us(1);
                let nid = self.nids[p];
                if let Some(link) = self.links.get(&p).copied() {
                    let other = if link.is_inbound() { Link::Outbound } else { Link::Inbound };
                    self.alice.service.disconnected(nid, other, &DisconnectReason::Conflict);
                }
            }
            "fetch" => {
                let (tx, rx) = crossbeam_channel::unbounded();
                self.chans.push(rx);
                self.alice.service.command(Command::Fetch(self.rids[us(1) - 1], self.nids[us(2)], std::time::Duration::from_secs(3), tx));
            }
            "annfetch" => {
                // inventory announcement by connected peer p listing repository r (the wire only delivers
                // messages of established connections)
                let p = us(2);
                if !self.links.contains_key(&p) {
                    info = json!({"skipped": true});
                    return;
                }
                self.ann_ts += 1;
                let inv = InventoryAnnouncement {
                    inventory: BoundedVec::try_from(vec![self.rids[us(1) - 1]]).unwrap(),
                    timestamp: Timestamp::from(LocalTime::from_millis((T0 + self.ann_ts) as u128)),
                };
                let msg: Message = AnnouncementMessage::from(inv).signed(&self.devices[p]).into();
                self.alice.service.received_message(self.nids[p], msg);
            }
            "done" => {
                let g = us(1);
                let result = a[2].as_str().unwrap_or("ok");
                // a task finishes once
                if g == 0 || g > self.tasks.len() || self.tasks[g - 1].finished {
                    info = json!({"forwarded": false, "unknown": true});
                    return;
                }
                self.tasks[g - 1].finished = true;
                let (repo, peer) = (self.tasks[g - 1].repo, self.tasks[g - 1].peer);
                // Wire::worker_result: `peers.lookup_mut(&nid)` must find a connected peer, and it must be the
                // connection the task was started on.
                let forwarded = self.links.contains_key(&peer) && !self.tasks[g - 1].stale;
                info = json!({"forwarded": forwarded, "repo": repo, "peer": peer});
                if forwarded {
                    let res = match result {
                        "ok" => Ok(FetchResult::new(self.docs[repo - 1].clone())),
                        "timeout" => Err(FetchError::Io(std::io::Error::from(std::io::ErrorKind::TimedOut))),
                        _ => Err(FetchError::Io(std::io::Error::from(std::io::ErrorKind::Other))),
                    };
                    self.alice.service.fetched(self.rids[repo - 1], self.nids[peer], res);
                }
            }
            "idle" => {
                let now = *self.alice.service.clock() + LocalDuration::from_secs(31);
                self.alice.service.tick(now, &Default::default());
                self.alice.service.wake();
            }
            _ => fatal(&format!("unknown op {name}")),
        });
        (res.err(), info)
    }

    fn observe(&mut self, op: &Value, panic: Option<String>, info: Value, out: &mut Out) -> Vec<usize> {
        let mut fetches = Vec::new();
        let mut disc = Vec::new();
        let ios: Vec<Io> = std::iter::from_fn(|| self.alice.service.next()).collect();
        for io in ios {
            match io {
                Io::Fetch { rid, remote, .. } => {
                    let r = self.rids.iter().position(|x| *x == rid).unwrap() + 1;
                    let p = self.nids.iter().position(|x| *x == remote).unwrap();
                    self.tasks.push(Task { repo: r, peer: p, finished: false, stale: false });
                    fetches.push(json!([self.tasks.len(), r, p]));
                }
                Io::Disconnect(nid, _) => disc.push(self.nids.iter().position(|x| *x == nid).unwrap()),
                Io::Connect(nid, _) => {
                    if let Some(p) = self.nids.iter().position(|x| *x == nid) {
                        self.dial.insert(p);
                    }
                }
                _ => {}
            }
        }
        let mut table: Vec<(usize, usize)> = self
            .alice
            .service
            .fetching()
            .iter()
            .map(|(rid, st)| (self.rids.iter().position(|x| x == rid).unwrap() + 1, self.nids.iter().position(|x| *x == st.from).unwrap()))
            .collect();
        table.sort();
        let mut sess = Vec::new();
        for p in 1..=self.npeers {
            if let Some(s) = self.alice.service.sessions().get(&self.nids[p]) {
                let fetching: HashSet<RepoId> = match &s.state {
                    radicle::node::State::Connected { fetching, .. } => fetching.clone(),
                    _ => HashSet::new(),
                };
                let mut f: Vec<usize> = fetching.iter().map(|rid| self.rids.iter().position(|x| x == rid).unwrap() + 1).collect();
                f.sort();
                let state = if s.is_connected() { "connected" } else if s.is_initial() { "initial" } else if s.is_connecting() { "attempted" } else { "disconnected" };
                sess.push(json!([p, s.is_connected(), f, s.queue.len(), state, if s.link.is_inbound() { "in" } else { "out" }]));
            }
        }
        let mut wire: Vec<Value> = self.links.iter().map(|(p, l)| json!([p, if l.is_inbound() { "in" } else { "out" }])).collect();
        wire.sort_by_key(|x| x[0].as_u64());
        let mut dial: Vec<usize> = self.dial.iter().copied().collect();
        dial.sort();
        out.emit(&json!({"ev": "step", "op": op, "fetches": fetches, "table": table, "sess": sess, "disc": disc, "wire": wire, "dial": dial,
            "info": info, "panic": panic.unwrap_or_default()}));
        disc
    }
}

fn main() {
    let args = Args::parse();
    quiet_panics();
    let scripts = read_ndjson(Path::new(args.req("--scripts")));
    let mut out = Out::create(Path::new(args.req("--out")));
    for run in scripts {
        let mut w = World::new(&run);
        let cap = run["capacity"].as_u64().unwrap_or(1);
        out.emit(&json!({"ev": "init", "run": run["run"], "peers": w.npeers, "repos": w.rids.len(), "capacity": cap, "queuemax": 128,
            "persistent": run["persistent"].as_array().cloned().unwrap_or_default()}));
        for op in run["ops"].as_array().unwrap() {
            let (panic, info) = w.apply(op);
            let dead = panic.is_some();
            let disc = w.observe(op, panic, info, &mut out);
            if dead {
                break;
            }
            // the wire layer drops connections the service asked to disconnect
            for d in disc {
                if w.alice.service.sessions().contains_key(&w.nids[d]) {
                    let op = json!(["disconnect", d]);
                    let (panic, info) = w.apply(&op);
                    let dead = panic.is_some();
                    w.observe(&op, panic, info, &mut out);
                    if dead {
                        break;
                    }
                }
            }
        }
    }
    out.finish();
}
