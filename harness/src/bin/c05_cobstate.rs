//! C05 — collaborative-object state is a function of the change set. Binds spec/Cob.tla to
//! `radicle::cob::get` / `list` (ChangeGraph::load + evaluate, Dag::prune_by, Issue/Patch apply).
//!
//! replay: every TLC case (a change graph with timestamps and payload classes, plus the model's
//!   predicted evaluation) is materialised as real change commits of a real issue/patch in a real
//!   storage (object ids ground into the model's id order) and *presented* in many ways: every
//!   permutation of the tips over namespaces whose keys sort differently, references created in
//!   either order, other namespaces, extra references to interior changes and to the root
//!   (namespace sets with the same closure), every namespace filled, read through `get` and through
//!   `list`.  Gating (what the property states): all presentations of one change set give the
//!   identical object, history and tips, and these are what the statement allows
//!   (`cobworld::statement_check`).  Informational: equality with the model's exact prediction
//!   (evaluation order), also for a second materialisation created in another order (`drift`).
//! record: random larger graphs (beyond the model's bounds), free object ids (the graph is relabelled
//!   by id rank afterwards), random reference assignments including partial closures; one ndjson
//!   record per evaluation for validation by spec/TraceCob.tla.
use std::collections::BTreeSet;
use std::path::Path;

use hwv::cobworld::*;
use hwv::*;

fn presentations(g: &GraphSpec, nns: usize, rng: &mut Rng, max_perms: usize) -> Vec<(String, Vec<(usize, usize)>, bool)> {
    // (name, [(namespace index, change label)], via_list)
    let tips = g.tips();
    let t = tips.len();
    let mut out: Vec<(String, Vec<(usize, usize)>, bool)> = Vec::new();
    let base: Vec<(usize, usize)> = tips.iter().enumerate().map(|(i, c)| (i, *c)).collect();
    out.push(("tips->ns ascending".into(), base.clone(), false));
    out.push(("read through list".into(), base.clone(), true));
    let mut perms = permutations(t);
    perms.remove(0);
    rng.shuffle(&mut perms);
    for p in perms.into_iter().take(max_perms) {
        out.push((format!("tips permuted {:?}", p), tips.iter().enumerate().map(|(i, c)| (p[i], *c)).collect(), false));
    }
    let mut r = base.clone();
    r.reverse();
    out.push(("references created in reverse".into(), r, false));
    out.push(("other namespaces".into(), tips.iter().enumerate().map(|(i, c)| (nns - 1 - i, *c)).collect(), false));
    // extra references to interior changes and the root: same closure
    let interior: Vec<usize> = (0..=g.m()).filter(|k| !tips.contains(k)).collect();
    if t < nns && !interior.is_empty() {
        let mut v = base.clone();
        let mut ints = interior.clone();
        rng.shuffle(&mut ints);
        for (j, c) in ints.iter().take(nns - t).enumerate() {
            v.push((t + j, *c));
        }
        rng.shuffle(&mut v);
        out.push(("extra references to interior changes".into(), v, false));
    }
    // every namespace holds a reference
    let mut v: Vec<(usize, usize)> = (0..nns).map(|i| (i, tips[(i + 1) % t])).collect();
    rng.shuffle(&mut v);
    out.push(("every namespace, tips repeated".into(), v, false));
    out
}

fn shard(args: &Args) {
    die_with_parent();
    let cases = read_ndjson(Path::new(args.req("--cases")));
    let mut out = Out::create(Path::new(args.req("--out")));
    let kind = Kind::parse(args.get("--kind").unwrap_or("issue"));
    let max_perms = args.num("--perms", 5) as usize;
    let work = std::env::current_dir().unwrap();
    let mut w = World::new(&work, kind);
    let mut rng = Rng(seed() ^ 0xC05);
    let (mut ngraphs, mut npres, mut drift, mut nontrivial, mut bad) = (0i64, 0i64, 0i64, 0i64, 0i64);
    let t0 = std::time::Instant::now();
    let (mut tm, mut tp, mut te) = (0u128, 0u128, 0u128);
    for case in cases {
        if std::env::var("HWV_TIMING").is_ok() && ngraphs % 100 == 0 {
            eprintln!("graphs={ngraphs} t={:?} materialise={}ms (store {}ms, {} stores) present={}ms eval={}ms", t0.elapsed(), tm / 1000, w.store_us / 1000, w.stores, tp / 1000, te / 1000);
        }
        let g = GraphSpec::from_case(&case);
        let idx = case["_i"].as_u64().unwrap_or(0);
        let all: BTreeSet<usize> = (0..=g.m()).collect();
        ngraphs += 1;
        // non-trivial: at least two concurrent changes
        if (1..=g.m()).any(|k| g.descendants(k).len() + g.closure(&[k]).len() < g.m() + 1) {
            nontrivial += 1;
        }
        let mut fail = |sig: String, detail: String, pres: &str, out: &mut Out| {
            bad += 1;
            out.emit(&json!({"ok": false, "case": case, "kind": kind.name(), "sig": sig, "detail": detail, "presentation": pres}));
        };
        let t1 = std::time::Instant::now();
        let oids = w.materialise(&g, idx + seed() * 7919, false);
        tm += t1.elapsed().as_micros();
        let labels = label_map(&oids);
        let mut first: Option<Observed> = None;
        let mut failed = false;
        for (name, refs, via_list) in presentations(&g, w.namespaces.len(), &mut rng, max_perms) {
            let rr: Vec<(usize, radicle::git::Oid)> = refs.iter().map(|(n, c)| (*n, oids[*c])).collect();
            let t1 = std::time::Instant::now();
            w.present(&rr);
            tp += t1.elapsed().as_micros();
            npres += 1;
            let t1 = std::time::Instant::now();
            let ev = w.eval(&labels, via_list);
            te += t1.elapsed().as_micros();
            match ev {
                Ok(Some(o)) => {
                    if let Some(f) = &first {
                        if *f != o {
                            fail("presentations-differ".into(), format!("first presentation: {}; this one: {}", f.to_json(), o.to_json()), &name, &mut out);
                            failed = true;
                            break;
                        }
                    } else {
                        if let Some(why) = statement_check(kind, &g, &all, &o) {
                            fail("statement".into(), why, &name, &mut out);
                            failed = true;
                            break;
                        }
                        first = Some(o);
                    }
                }
                Ok(None) => {
                    fail("not-found".into(), "object not found".into(), &name, &mut out);
                    failed = true;
                    break;
                }
                Err(e) => {
                    fail("error".into(), e, &name, &mut out);
                    failed = true;
                    break;
                }
            }
        }
        if failed {
            continue;
        }
        let first = first.unwrap();
        let mut d = model_diff(kind, &case, &first);
        if d.is_none() && idx % 3 == 0 {
            // a second materialisation: other commits (created in another order), same id order
            let oids2 = w.materialise(&g, idx + seed() * 7919 + 1_000_000_007, true);
            let labels2 = label_map(&oids2);
            let rr: Vec<(usize, radicle::git::Oid)> = g.tips().iter().enumerate().map(|(i, c)| (i, oids2[*c])).collect();
            w.present(&rr);
            npres += 1;
            d = match w.eval(&labels2, false) {
                Ok(Some(o)) => model_diff(kind, &case, &o),
                other => Some(format!("second materialisation: {:?}", other.map(|o| o.map(|o| o.to_json())))),
            };
        }
        if let Some(d) = d {
            drift += 1;
            if drift <= 5 {
                out.emit(&json!({"ok": true, "drift": true, "case": case, "detail": d}));
            }
        }
    }
    out.emit(&json!({"summary": true, "graphs": ngraphs, "evaluations": w.evals as i64, "presentations": npres,
                     "stores": w.stores as i64, "drift": drift, "nontrivial": nontrivial, "failures": bad}));
    out.finish();
}

fn record(args: &Args) {
    let n = args.num("--n", 100) as usize;
    let mmax = args.num("--m", 8) as usize;
    let kind = Kind::parse(args.get("--kind").unwrap_or("issue"));
    let mut out = Out::create(Path::new(args.req("--out")));
    let work = std::env::current_dir().unwrap();
    let mut w = World::new(&work, kind);
    let mut rng = Rng(seed() ^ 0x5EED_C05);
    for gid in 0..n {
        let m = 4 + rng.below(mmax - 3);
        let g0 = random_graph(&mut rng, m, &[("ok", 5), ("guest", 2)], 0);
        let (oids0, rank) = w.materialise_free(&g0, gid as u64 + seed() * 104729);
        let g = relabel(&g0, &rank);
        let mut oids = vec![oids0[0]; m + 1];
        for k in 1..=m {
            oids[rank[k]] = oids0[k];
        }
        let labels = label_map(&oids);
        // several reference assignments: the full closure twice (different namespaces), then partial ones
        let tips = g.tips();
        let nns = w.namespaces.len();
        let mut assignments: Vec<Vec<(usize, usize)>> = Vec::new();
        if tips.len() <= nns {
            assignments.push(tips.iter().enumerate().map(|(i, c)| (i, *c)).collect());
            assignments.push(tips.iter().enumerate().map(|(i, c)| (nns - 1 - i, *c)).collect());
        }
        for _ in 0..3 {
            let k = 1 + rng.below(nns);
            let mut nss: Vec<usize> = (0..nns).collect();
            rng.shuffle(&mut nss);
            assignments.push(nss.into_iter().take(k).map(|n| (n, rng.below(m + 1))).collect());
        }
        for refs in assignments {
            let rr: Vec<(usize, radicle::git::Oid)> = refs.iter().map(|(n, c)| (*n, oids[*c])).collect();
            w.present(&rr);
            let via_list = rng.below(4) == 0;
            let view = match w.eval(&labels, via_list) {
                // payload strings carry the creation-time labels: map the title back through `rank`
                Ok(Some(o)) => view_json(&o, &rank),
                Ok(None) => json!({"log": [], "comments": [], "lww": -2, "labels": -2, "hist": [], "tips": []}),
                Err(e) => json!({"log": [], "comments": [], "lww": -3, "labels": -3, "hist": [], "tips": [], "error": e}),
            };
            let mut r = g.to_json();
            r["gid"] = json!(gid);
            r["refs"] = json!(refs.iter().map(|(_, c)| *c).collect::<BTreeSet<_>>());
            r["view"] = view;
            r["kind"] = json!(kind.name());
            out.emit(&r);
        }
    }
    out.finish();
}

fn main() {
    let args = Args::parse();
    quiet_panics();
    tune_malloc();
    match args.req("--mode") {
        "replay" => {
            let cases = read_ndjson(Path::new(args.req("--cases")));
            let work = std::env::current_dir().unwrap();
            let mut extra = Vec::new();
            for k in ["--kind", "--perms"] {
                if let Some(v) = args.get(k) {
                    extra.push(k.to_string());
                    extra.push(v.to_string());
                }
            }
            run_sharded(&cases, args.num("--procs", 6) as usize, "shard", &extra, &work, Path::new(args.req("--out")));
        }
        "shard" => shard(&args),
        "record" => record(&args),
        m => fatal(&format!("unknown mode {m}")),
    }
}
