//! C17 — rate limiter. Binds spec/Limiter.tla to `radicle_node::service::limiter::RateLimiter`.
//!
//! replay: one CASE per distinct bucket state of MCLimiter (mode "emit"): the call sequence
//!   reaching it, the buckets, and every outgoing `limit` call with outcome and buckets afterwards.
//!   The real limiter is rebuilt by replaying the sequence; outcome (admit / limit / panic) and the
//!   serialised buckets (milli-tokens, refill time) are compared after every call.
//!   Gating (the statement): a bypassed node or non-routable host is never limited and leaves no
//!   bucket; the admissions of the real limiter along the sequence satisfy the window bound.
//!   Any other difference from the model (exact tokens, refusing more than the model) is drift.
//! record: random timelines (bursts, idle periods, backward clocks, non-dyadic rates, several
//!   hosts) logged call by call for TraceLimiter.tla; optionally through the real `Service`
//!   (`tick` + `accepted`).
use std::path::Path;

use hwv::*;
use localtime::LocalTime;
use radicle::node::config::RateLimit;
use radicle::node::{HostName, NodeId};
use radicle_node::service::limiter::RateLimiter;

fn host(h: i64) -> HostName {
    match h {
        0 => HostName::Dns("seed.radicle.example".into()),
        1 => HostName::Ip(std::net::IpAddr::from([8, 8, 8, 8])),
        2 => HostName::Ip(std::net::IpAddr::from([192, 168, 1, 7])),
        3 => HostName::Dns("other.radicle.example".into()),
        4 => HostName::Ip(std::net::IpAddr::from([10, 0, 0, 2])),
        _ => HostName::Ip(std::net::IpAddr::from([1, 1, 1, h as u8])),
    }
}
fn nid(n: i64) -> Option<NodeId> {
    // deterministic ids (arbitrary::gen draws a fresh random value on every call)
    if n == 0 { None } else { Some(*radicle::node::device::Device::mock_from_seed([n as u8 + 10; 32]).public_key()) }
}

struct Real {
    lim: RateLimiter,
    nhosts: i64,
}
impl Real {
    fn new(bypass: &[i64], nhosts: i64) -> Self {
        Real { lim: RateLimiter::new(bypass.iter().filter_map(|n| nid(*n))), nhosts }
    }
    /// "admit" | "limit" | "panic"
    fn limit(&mut self, h: i64, n: i64, cap: usize, rate_milli: i64, now: u64) -> &'static str {
        let rl = RateLimit { fill_rate: rate_milli as f64 / 1000.0, capacity: cap };
        let id = nid(n);
        let lim = &mut self.lim;
        match guard(move || lim.limit(host(h), id.as_ref(), &rl, LocalTime::from_millis(now as u128))) {
            Ok(false) => "admit",
            Ok(true) => "limit",
            Err(_) => "panic",
        }
    }
    /// [[host, cap, rate_milli, tokens_milli, at]] sorted by host
    fn proj(&self) -> Value {
        let mut v = Vec::new();
        for h in 0..self.nhosts.max(6) {
            if let Some(b) = self.lim.buckets.get(&host(h)) {
                v.push(bucket_json(h, b));
            }
        }
        if v.len() != self.lim.buckets.len() {
            v.push(json!(["unknown-host-bucket", self.lim.buckets.len()]));
        }
        json!(v)
    }
    fn bucket(&self, h: i64) -> Value {
        self.lim.buckets.get(&host(h)).map(|b| bucket_json(h, b)).unwrap_or(json!([]))
    }
}
fn bucket_json(h: i64, b: &radicle_node::service::limiter::TokenBucket) -> Value {
    let s = serde_json::to_string(b).unwrap_or_else(|e| fatal(&format!("serialise bucket: {e}")));
    let j: Value = serde_json::from_str(&s).unwrap();
    let milli = |x: &Value| (x.as_f64().unwrap() * 1000.0).round() as i64;
    json!([h, j["capacity"].as_f64().unwrap() as i64, milli(&j["rate"]), milli(&j["tokens"]), j["refilledAt"].as_u64().unwrap()])
}

/// Window bound on admission times (ms): for i <= j: (j-i+1)*1000 <= cap*1000 + rate*floor_secs.
fn window_ok(adm: &[u64], cap: i64, rate: i64) -> bool {
    for i in 0..adm.len() {
        for j in i..adm.len() {
            if adm[j] < adm[i] {
                return false;
            }
            let secs = ((adm[j] - adm[i]) / 1000) as i64;
            if (j - i + 1) as i64 * 1000 > cap * 1000 + rate * secs {
                return false;
            }
        }
    }
    true
}

#[derive(Default)]
struct Stats {
    calls: u64,
    drift: u64,
    fails: Vec<Value>,
    drifts: Vec<Value>,
    nontrivial: u64,
    admits: u64,
    limits: u64,
    panics: u64,
}

struct Ctx {
    params: Vec<(usize, i64)>,
    nonroutable: Vec<i64>,
    bypass: Vec<i64>,
}

/// Runs a call sequence on a fresh limiter. Returns the limiter, per-host admissions, and per-host
/// creation parameters.
fn run(cx: &Ctx, calls: &[&Value]) -> (Real, Vec<(i64, u64)>, Vec<(i64, usize, i64)>, Vec<&'static str>) {
    let mut r = Real::new(&cx.bypass, 6);
    let mut adm = Vec::new();
    let mut created: Vec<(i64, usize, i64)> = Vec::new();
    let mut rets = Vec::new();
    for c in calls {
        let (h, n, p, now) = (c[0].as_i64().unwrap(), c[1].as_i64().unwrap(), c[2].as_u64().unwrap() as usize, c[3].as_u64().unwrap());
        let (cap, rate) = cx.params[p - 1];
        let had = r.bucket(h) != json!([]);
        let ret = r.limit(h, n, cap, rate, now);
        let counted = !cx.bypass.contains(&n) && !cx.nonroutable.contains(&h);
        if !had && r.bucket(h) != json!([]) {
            created.push((h, cap, rate));
        }
        if ret == "admit" && counted {
            adm.push((h, now));
        }
        rets.push(ret);
    }
    (r, adm, created, rets)
}

fn statement_ok(cx: &Ctx, calls: &[&Value], rets: &[&'static str], r: &Real, adm: &[(i64, u64)], created: &[(i64, usize, i64)]) -> Result<(), String> {
    for (c, ret) in calls.iter().zip(rets) {
        let (h, n) = (c[0].as_i64().unwrap(), c[1].as_i64().unwrap());
        if (cx.bypass.contains(&n) || cx.nonroutable.contains(&h)) && *ret != "admit" {
            return Err(format!("bypassed node / non-routable host was answered {ret}"));
        }
    }
    for h in &cx.nonroutable {
        if r.bucket(*h) != json!([]) {
            return Err("non-routable host got a bucket".into());
        }
    }
    for (h, cap, rate) in created {
        let a: Vec<u64> = adm.iter().filter(|(x, _)| x == h).map(|(_, t)| *t).collect();
        if !window_ok(&a, *cap as i64, *rate) {
            return Err(format!("window bound exceeded for host {h}: admissions at {a:?} with capacity {cap}, rate {rate}/1000 per s"));
        }
    }
    Ok(())
}

fn replay_case(c: &Value, st: &mut Stats) {
    let cx = Ctx {
        params: c["params"].as_array().unwrap().iter().map(|p| (p[0].as_u64().unwrap() as usize, p[1].as_i64().unwrap())).collect(),
        nonroutable: c["nonroutable"].as_array().unwrap().iter().map(|x| x.as_i64().unwrap()).collect(),
        bypass: c["bypass"].as_array().unwrap().iter().map(|x| x.as_i64().unwrap()).collect(),
    };
    let path: Vec<&Value> = c["path"].as_array().unwrap().iter().collect();
    let outs = c["outs"].as_array().unwrap();
    if path.len() >= 2 {
        st.nontrivial += 1;
    }
    // the path itself (every return value), then every outgoing call on a rebuilt limiter
    let mut seqs: Vec<(Vec<&Value>, &Value, &Value)> = Vec::new(); // calls, expected final ret (or Null), expected proj
    seqs.push((path.clone(), &Value::Null, &c["proj"]));
    for o in outs {
        let mut s = path.clone();
        s.push(o);
        seqs.push((s, &o[4], &o[5]));
    }
    for (k, (calls, _, eproj)) in seqs.iter().enumerate() {
        let (r, adm, created, rets) = run(&cx, calls);
        st.calls += if k == 0 { calls.len() as u64 } else { 1 };
        let last = *rets.last().unwrap_or(&"");
        match last {
            "admit" => st.admits += 1,
            "limit" => st.limits += 1,
            "panic" => st.panics += 1,
            _ => {}
        }
        let exp_rets: Vec<&str> = calls.iter().map(|c| c[4].as_str().unwrap()).collect();
        let proj = r.proj();
        let desc = json!({"params": c["params"], "calls": calls.iter().map(|c| json!([c[0], c[1], c[2], c[3]])).collect::<Vec<_>>()});
        if let Err(why) = statement_ok(&cx, calls, &rets, &r, &adm, &created) {
            st.fails.push(json!({"ok": false, "what": why, "case": desc, "expected_rets": exp_rets, "actual_rets": rets,
                                 "expected_buckets": eproj, "actual_buckets": proj}));
        } else if exp_rets != rets || **eproj != proj {
            st.drift += 1;
            if st.drifts.len() < 10 {
                st.drifts.push(json!({"drift": true, "case": desc, "expected_rets": exp_rets, "actual_rets": rets,
                                      "expected_buckets": eproj, "actual_buckets": proj}));
            }
        }
    }
}

// -------------------------------------------------------------------------------------- record

fn record_direct(rng: &mut fastrand::Rng, o: &mut Out, steps: usize) {
    let bypass = [2i64];
    let nonroutable = [2i64, 4];
    let nhosts = 5;
    let mut r = Real::new(&bypass, nhosts);
    o.emit(&json!({"op": "reset", "bypass": bypass, "nonroutable": nonroutable}));
    // per run: a few parameter sets; dyadic ones are flagged exact
    let rates = [0i64, 100, 125, 200, 250, 333, 500, 700, 1000, 1500, 2500, 3000];
    let nparams = rng.usize(1..3);
    let params: Vec<(usize, i64)> = (0..nparams).map(|_| (rng.usize(0..5), rates[rng.usize(0..rates.len())])).collect();
    let exact = params.iter().all(|(_, r)| r % 125 == 0);
    let mut now: u64 = rng.u64(0..5000);
    for _ in 0..steps {
        // clock: bursts, sub-second steps, seconds, long idle, sometimes backwards
        now = match rng.u8(0..20) {
            0..=5 => now,
            6..=9 => now + rng.u64(1..1000),
            10..=13 => now + rng.u64(1..4) * 1000 + if rng.bool() { rng.u64(0..1000) } else { 0 },
            14 => now + rng.u64(10_000..100_000),
            15 => now.saturating_sub(rng.u64(1..3000)),
            _ => now + rng.u64(200..1500),
        };
        let h = if rng.u8(0..4) == 0 { rng.i64(0..nhosts) } else { 0 };
        let n = if rng.u8(0..6) == 0 { 2 } else { rng.i64(0..2) };
        let (cap, rate) = params[rng.usize(0..params.len())];
        let ret = r.limit(h, n, cap, rate, now);
        o.emit(&json!({"op": "limit", "h": h, "n": n, "cap": cap, "rate": rate, "now": now, "ret": ret,
                       "exact": exact, "bucket": r.bucket(h)}));
    }
}

/// The limiter as the node service drives it: `Service::tick` (also with a clock that goes
/// backwards) and `Service::accepted(ip)`; the bucket is read through `ServiceState::limiter`.
fn record_service(rng: &mut fastrand::Rng, o: &mut Out, steps: usize) {
    use radicle::test::storage::MockStorage;
    use radicle_node::service::{Metrics, ServiceState};
    use radicle_node::test::peer::{Config, Peer};
    let rates = [125i64, 200, 250, 500, 700, 1000, 2500];
    let (cap, rate) = (rng.usize(1..4), rates[rng.usize(0..rates.len())]);
    let exact = rate % 125 == 0;
    let base: u64 = 1_000_000;
    let mut cfg = Config::default();
    cfg.config.limits.rate.inbound = RateLimit { fill_rate: rate as f64 / 1000.0, capacity: cap };
    cfg.local_time = LocalTime::from_millis(base as u128);
    let mut peer = Peer::config("verif", [7, 7, 7, 7], MockStorage::empty(), cfg);
    peer.initialize();
    o.emit(&json!({"op": "reset", "service": true}));
    o.emit(&json!({"op": "tick", "now": peer.service.clock().as_millis()}));
    let ip = std::net::IpAddr::from([8, 8, 8, 8]);
    let mut t = base;
    for _ in 0..steps {
        if rng.u8(0..3) == 0 {
            t = match rng.u8(0..10) {
                0..=2 => t + rng.u64(1..900),
                3..=6 => t + rng.u64(1..4) * 1000 + rng.u64(0..500),
                7 => t + rng.u64(10_000..60_000),
                _ => t.saturating_sub(rng.u64(1..5000)).max(base),
            };
            let svc = &mut peer.service;
            let r = guard(move || svc.tick(LocalTime::from_millis(t as u128), &Metrics::default()));
            o.emit(&json!({"op": "tick", "now": t, "panic": r.is_err()}));
        } else {
            let svc = &mut peer.service;
            let r = guard(move || svc.accepted(ip));
            let ret = match r {
                Ok(true) => "admit",
                Ok(false) => "limit",
                Err(_) => "panic",
            };
            let now = peer.service.clock().as_millis();
            let bucket = peer.service.limiter().buckets.get(&HostName::Ip(ip)).map(|b| bucket_json(1, b)).unwrap_or(json!([]));
            o.emit(&json!({"op": "limit", "h": 1, "n": 0, "cap": cap, "rate": rate, "now": now, "ret": ret,
                           "exact": exact, "bucket": bucket, "service": true}));
        }
    }
}

fn main() {
    let args = Args::parse();
    quiet_panics();
    let out = Path::new(args.req("--out")).to_path_buf();
    match args.req("--mode") {
        "replay" => {
            let cases = read_ndjson(Path::new(args.req("--cases")));
            let nthreads = (args.num("--threads", 6) as usize).max(1);
            let mut chunks: Vec<Vec<Value>> = (0..nthreads).map(|_| Vec::new()).collect();
            for (i, c) in cases.into_iter().enumerate() {
                chunks[i % nthreads].push(c);
            }
            let handles: Vec<_> = chunks
                .into_iter()
                .map(|chunk| {
                    std::thread::spawn(move || {
                        let mut st = Stats::default();
                        for c in &chunk {
                            replay_case(c, &mut st);
                        }
                        st
                    })
                })
                .collect();
            let mut st = Stats::default();
            for h in handles {
                let s = h.join().unwrap_or_else(|_| fatal("worker thread panicked"));
                st.calls += s.calls;
                st.drift += s.drift;
                st.nontrivial += s.nontrivial;
                st.admits += s.admits;
                st.limits += s.limits;
                st.panics += s.panics;
                st.fails.extend(s.fails);
                if st.drifts.len() < 10 {
                    st.drifts.extend(s.drifts);
                }
            }
            let mut o = Out::create(&out);
            for f in st.fails.iter().take(300) {
                o.emit(f);
            }
            for d in &st.drifts {
                o.emit(d);
            }
            o.emit(&json!({"summary": true, "calls": st.calls, "drift": st.drift, "states_nontrivial": st.nontrivial,
                           "failures": st.fails.len(), "admits": st.admits, "limits": st.limits, "panics": st.panics}));
            o.finish();
        }
        "record" => {
            let n = args.num("--n", 100);
            let steps = args.num("--steps", 40) as usize;
            let mut rng = fastrand::Rng::with_seed(seed());
            let mut o = Out::create(&out);
            for _ in 0..n {
                record_direct(&mut rng, &mut o, steps);
            }
            for _ in 0..args.num("--service", 0) {
                record_service(&mut rng, &mut o, steps);
            }
            o.finish();
        }
        _ => fatal("unknown mode"),
    }
}
