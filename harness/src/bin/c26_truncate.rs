//! C26 — terminal truncation. Binds spec/Truncate.tla to `radicle_term::cell::Cell::truncate`
//! (`str`, `String`, `Paint<_>`, `Label`) and `radicle_term::Line::truncate`.
//!
//! replay: cases emitted by TLC ({line: [[kind..]..], exp: [width][delim] -> {r, o}}) are
//!   concretised with real grapheme clusters (several per kind; the attributes the model assumes
//!   for a cluster are checked against the real segmentation and width function first), the real
//!   truncation is run under `guard` and a CPU-time watchdog, and the outcome is judged:
//!   gating (property C26): no panic, terminates, `Cell::width(result) <= width`;
//!   drift (informational): result differs from the transcribed algorithm's result.
//! record: random lines / strings over a much larger pool of clusters (emoji sequences, CRLF,
//!   lone combining marks, exotic spaces ...), widths up to 24, more delimiters; every call is
//!   logged in the model's vocabulary for validation by spec/TraceTruncate.tla.
use std::collections::HashMap;
use std::path::Path;
use std::sync::mpsc;
use std::sync::Arc;
use std::time::{Duration, Instant};

use hwv::*;
use radicle_term::cell::Cell;
use radicle_term::{Label, Line, Paint};
use unicode_segmentation::UnicodeSegmentation;

// ---------------------------------------------------------------------------------------------
// Grapheme kinds of MCTruncate.tla: (kind, width, first-scalar bytes, whitespace, concretisations)

const KINDS: &[(usize, usize, usize, bool, &[&str])] = &[
    (1, 1, 1, false, &["a", "e\u{301}", "x"]),
    (2, 2, 3, false, &["好", "\u{2764}\u{fe0f}", "木"]),
    (3, 1, 1, true, &[" ", "\t"]),
    (4, 1, 2, true, &["\u{a0}", "\u{85}"]),
    (5, 1, 3, true, &["\u{2003}", "\u{2009}", "\u{205f}"]),
    (6, 2, 3, true, &["\u{3000}"]),
    (8, 1, 3, false, &["…", "\u{200b}", "€"]),
    (9, 1, 1, false, &[".", "-"]),
    (10, 2, 3, false, &["＊", "〜", "\u{2b50}"]),
];

/// Attributes of a real cluster, measured with the implementation's own functions.
fn attrs(g: &str) -> (usize, usize, bool) {
    let w = Cell::width(g);
    let b = g.chars().next().map_or(0, |c| c.len_utf8());
    let ws = g.chars().all(|c| c.is_whitespace());
    (w, b, ws)
}

fn check_kinds() {
    for (k, w, b, ws, alts) in KINDS {
        for a in alts.iter() {
            if a.graphemes(true).count() != 1 {
                fatal(&format!("kind {k}: {a:?} is not one grapheme cluster"));
            }
            if attrs(a) != (*w, *b, *ws) {
                fatal(&format!("kind {k}: {a:?} has attributes {:?}, model assumes {:?}", attrs(a), (w, b, ws)));
            }
        }
    }
}

fn concretise(kind: usize, variant: usize, pos: usize) -> &'static str {
    let alts = KINDS.iter().find(|k| k.0 == kind).unwrap_or_else(|| fatal(&format!("unknown kind {kind}"))).4;
    if variant == 0 {
        alts[0]
    } else {
        alts[(variant + pos) % alts.len()]
    }
}

// ---------------------------------------------------------------------------------------------
// Calls and the watchdog

#[derive(Clone, Copy, PartialEq, Debug)]
enum Api {
    /// `Cell::truncate` for `Line` (→ `Line::truncate`), items are `Label`s
    Line,
    /// `str`, `String`, `Paint<&str>`, `Paint<String>`, `Label` on a single string (must agree)
    Str,
}

#[derive(Clone)]
struct Call {
    api: Api,
    items: Vec<String>,
    width: usize,
    delim: String,
}

#[derive(Clone, Debug)]
enum Outcome {
    Ok(Vec<String>),
    Panic(String),
    Hang,
    /// not run: too many earlier calls hung
    Skipped,
}

fn run_call(c: &Call) -> Vec<String> {
    match c.api {
        Api::Line => {
            let mut line = Line::default();
            for i in &c.items {
                line.push(Label::new(i));
            }
            let out: Line = Cell::truncate(&line, c.width, &c.delim);
            out.into_iter().map(|l| l.content().to_owned()).collect()
        }
        Api::Str => {
            let s = c.items[0].as_str();
            let a: String = Cell::truncate(s, c.width, &c.delim);
            let b: String = Cell::truncate(&s.to_owned(), c.width, &c.delim);
            let p: Paint<String> = Cell::truncate(&Paint::new(s), c.width, &c.delim);
            let q: Paint<String> = Cell::truncate(&Paint::new(s.to_owned()), c.width, &c.delim);
            if a != b || a != p.content() || a != q.content() {
                panic!("Cell impls disagree: str {a:?} String {b:?} Paint<&str> {:?} Paint<String> {:?}", p.content(), q.content());
            }
            vec![a]
        }
    }
}

fn thread_cpu(clock: libc::clockid_t) -> Option<Duration> {
    let mut ts = libc::timespec { tv_sec: 0, tv_nsec: 0 };
    // SAFETY: plain syscall writing into a local.
    let rc = unsafe { libc::clock_gettime(clock, &mut ts) };
    (rc == 0).then(|| Duration::new(ts.tv_sec as u64, ts.tv_nsec as u32))
}

/// CPU seconds a call may burn before it is declared non-terminating (a call takes microseconds).
const HANG_CPU: Duration = Duration::from_millis(1500);

/// Run the calls in order on worker threads. A call that keeps a worker busy for `HANG_CPU` of
/// *thread CPU time* (not wall clock: immune to a loaded machine) is recorded as `Hang`, its
/// worker is abandoned (it spins until the process exits) and a fresh worker continues.
fn run_all(calls: Arc<Vec<Call>>) -> Vec<Outcome> {
    let n = calls.len();
    let mut out: Vec<Outcome> = Vec::with_capacity(n);
    let mut hangs = 0;
    while out.len() < n {
        let start = out.len();
        let (tx, rx) = mpsc::channel::<Result<Outcome, libc::clockid_t>>();
        let cs = calls.clone();
        std::thread::spawn(move || {
            let mut clock: libc::clockid_t = 0;
            // SAFETY: querying the CPU clock of the current thread.
            unsafe { libc::pthread_getcpuclockid(libc::pthread_self(), &mut clock) };
            let _ = tx.send(Err(clock));
            for c in &cs[start..] {
                let o = match guard(|| run_call(c)) {
                    Ok(v) => Outcome::Ok(v),
                    Err(p) => Outcome::Panic(p),
                };
                if tx.send(Ok(o)).is_err() {
                    return;
                }
            }
        });
        let clock = match rx.recv() {
            Ok(Err(c)) => c,
            _ => fatal("worker did not start"),
        };
        let mut cpu_mark = thread_cpu(clock).unwrap_or_default();
        let mut wall_mark = Instant::now();
        loop {
            if out.len() == n {
                break;
            }
            match rx.recv_timeout(Duration::from_millis(100)) {
                Ok(Ok(o)) => {
                    out.push(o);
                    // only re-read the clock now and then: it is a syscall
                    if out.len() % 256 == 0 {
                        cpu_mark = thread_cpu(clock).unwrap_or(cpu_mark);
                        wall_mark = Instant::now();
                    }
                }
                Ok(Err(_)) => fatal("unexpected worker message"),
                Err(mpsc::RecvTimeoutError::Timeout) => {
                    let cpu = thread_cpu(clock).unwrap_or(cpu_mark);
                    // `cpu_mark` may be older than the call in flight, which only delays the verdict
                    if cpu.saturating_sub(cpu_mark) > HANG_CPU + Duration::from_millis(100) {
                        out.push(Outcome::Hang);
                        hangs += 1;
                        if hangs > 6 {
                            // enough evidence; do not start more spinning threads
                            while out.len() < n {
                                out.push(Outcome::Skipped);
                            }
                        }
                        break;
                    }
                    if wall_mark.elapsed() > Duration::from_secs(300) {
                        fatal("worker made no progress and used no CPU for 300 s (inconclusive)");
                    }
                }
                Err(mpsc::RecvTimeoutError::Disconnected) => fatal("worker died"),
            }
        }
    }
    out
}

// ---------------------------------------------------------------------------------------------
// Model vocabulary for recorded traces: a grapheme is id*1000 + w*100 + b*10 + ws

struct Vocab {
    ids: HashMap<String, u64>,
}

impl Vocab {
    fn code(&mut self, g: &str) -> u64 {
        let n = self.ids.len() as u64 + 1;
        let id = *self.ids.entry(g.to_owned()).or_insert(n);
        let (w, b, ws) = attrs(g);
        id * 1000 + (w.min(9) as u64) * 100 + (b.min(9) as u64) * 10 + ws as u64
    }
    fn string(&mut self, s: &str) -> Vec<u64> {
        s.graphemes(true).map(|g| self.code(g)).collect()
    }
}

fn usizes(v: &Value) -> Vec<usize> {
    v.as_array().unwrap_or_else(|| fatal("array expected")).iter().map(|x| x.as_u64().unwrap() as usize).collect()
}

fn items_of(v: &Value) -> Vec<Vec<usize>> {
    v.as_array().unwrap_or_else(|| fatal("array expected")).iter().map(usizes).collect()
}

/// Delimiters of MCTruncate!DelimSeq.
const DELIMS: &[&[usize]] = &[&[], &[8], &[10], &[9, 9]];

fn main() {
    let args = Args::parse();
    quiet_panics();
    check_kinds();
    let mode = args.req("--mode").to_string();
    let out_path = Path::new(args.req("--out")).to_path_buf();
    let mut o = Out::create(&out_path);
    match mode.as_str() {
        "replay" => {
            let cases = read_ndjson(Path::new(args.req("--cases")));
            let variants = args.num("--variants", 3) as usize;
            // (case index, variant, width, delim index, expected items as strings, expected res)
            struct Meta {
                case: usize,
                variant: usize,
                di: usize,
                exp_res: String,
                exp: Vec<String>,
            }
            let mut calls: Vec<Call> = Vec::new();
            let mut metas: Vec<Meta> = Vec::new();
            for (ci, c) in cases.iter().enumerate() {
                let line = items_of(&c["line"]);
                for v in 0..variants {
                    // concretise the input; positions are numbered through the whole line
                    let mut pos = 0;
                    let conc: Vec<Vec<&str>> = line
                        .iter()
                        .map(|it| {
                            it.iter()
                                .map(|k| {
                                    pos += 1;
                                    concretise(*k, v, pos)
                                })
                                .collect()
                        })
                        .collect();
                    let items: Vec<String> = conc.iter().map(|it| it.concat()).collect();
                    for (it, cs) in items.iter().zip(&conc) {
                        let gs: Vec<&str> = it.graphemes(true).collect();
                        if gs != *cs {
                            fatal(&format!("concretisation {it:?} does not segment into its clusters"));
                        }
                    }
                    let exp_w = c["exp"].as_array().unwrap();
                    for (w, per_d) in exp_w.iter().enumerate() {
                        for (di, e) in per_d.as_array().unwrap().iter().enumerate() {
                            let dconc: Vec<&str> = DELIMS[di].iter().enumerate().map(|(p, k)| concretise(*k, v, p)).collect();
                            let delim = dconc.concat();
                            // expected strings: graphemes equal to the input at the same position are
                            // the input's clusters, the rest is the delimiter
                            let eo = items_of(&e["o"]);
                            let exp: Vec<String> = eo
                                .iter()
                                .enumerate()
                                .map(|(i, it)| {
                                    let mut s = String::new();
                                    let mut in_prefix = true;
                                    let mut dpos = 0;
                                    for (j, k) in it.iter().enumerate() {
                                        if in_prefix && i < line.len() && j < line[i].len() && line[i][j] == *k {
                                            s.push_str(conc[i][j]);
                                        } else {
                                            in_prefix = false;
                                            s.push_str(dconc.get(dpos).copied().unwrap_or("\u{fffd}"));
                                            dpos += 1;
                                        }
                                    }
                                    s
                                })
                                .collect();
                            let exp_res = e["r"].as_str().unwrap().to_owned();
                            let mut apis = vec![Api::Line];
                            if items.len() == 1 {
                                apis.push(Api::Str);
                            }
                            for api in apis {
                                calls.push(Call { api, items: items.clone(), width: w, delim: delim.clone() });
                                metas.push(Meta { case: ci, variant: v, di, exp_res: exp_res.clone(), exp: exp.clone() });
                            }
                        }
                    }
                }
            }
            let calls = Arc::new(calls);
            // run in parallel chunks, each with its own watchdog
            let nthreads = (args.num("--threads", 4) as usize).max(1);
            let chunk = calls.len().div_ceil(nthreads).max(1);
            let handles: Vec<_> = (0..nthreads)
                .map(|t| {
                    let cs = calls.clone();
                    std::thread::spawn(move || {
                        let lo = (t * chunk).min(cs.len());
                        let hi = ((t + 1) * chunk).min(cs.len());
                        run_all(Arc::new(cs[lo..hi].to_vec()))
                    })
                })
                .collect();
            let mut outcomes: Vec<Outcome> = Vec::with_capacity(calls.len());
            for h in handles {
                outcomes.extend(h.join().unwrap_or_else(|_| fatal("monitor thread panicked")));
            }
            let (mut evals, mut truncated, mut drift, mut bad, mut drift_logged, mut skipped) = (0u64, 0u64, 0u64, 0u64, 0, 0u64);
            for ((call, meta), outc) in calls.iter().zip(&metas).zip(&outcomes) {
                evals += 1;
                let input_w: usize = call.items.iter().map(|s| Cell::width(s.as_str())).sum();
                if input_w > call.width {
                    truncated += 1;
                }
                let (ok, actual, detail): (bool, Value, String) = match outc {
                    Outcome::Ok(items) => {
                        let w: usize = items.iter().map(|s| Cell::width(s.as_str())).sum();
                        (w <= call.width, json!(items), format!("width {w}"))
                    }
                    Outcome::Panic(p) => (false, json!("panic"), p.clone()),
                    Outcome::Hang => (false, json!("hang"), format!("no result after {HANG_CPU:?} of CPU time")),
                    Outcome::Skipped => {
                        skipped += 1;
                        continue;
                    }
                };
                let is_drift = ok
                    && (meta.exp_res != "ok"
                        || match outc {
                            Outcome::Ok(items) => *items != meta.exp,
                            _ => true,
                        });
                if !ok {
                    bad += 1;
                }
                if is_drift {
                    drift += 1;
                }
                if (!ok && bad <= 200) || (is_drift && drift_logged < 50) {
                    if is_drift {
                        drift_logged += 1;
                    }
                    o.emit(&json!({"ok": ok, "drift": is_drift, "api": format!("{:?}", call.api), "case": meta.case,
                        "variant": meta.variant, "line": cases[meta.case]["line"], "items": call.items, "width": call.width,
                        "delim": call.delim, "di": meta.di, "expected": meta.exp, "actual": actual, "detail": detail}));
                }
            }
            o.emit(&json!({"summary": true, "evaluations": evals, "truncating": truncated, "violations": bad, "drift": drift, "skipped": skipped}));
            o.finish();
        }
        "record" => {
            // Random inputs far outside the bounded model, logged in the model's vocabulary.
            let n = args.num("--n", 2000) as usize;
            let mut rng = fastrand::Rng::with_seed(seed());
            let pool: Vec<&str> = vec![
                "a", "b", "Z", "0", ".", "-", "é", "ß", "e\u{301}", "n\u{303}\u{301}", "好", "木", "한", "각", "Ａ", "…", "€", "→",
                "\u{200b}", "\u{200d}", "\u{301}", "\u{fe0f}", "\u{2764}\u{fe0f}", "🪵", "👨\u{200d}👩\u{200d}👧", "🇫🇷", "#\u{fe0f}\u{20e3}",
                "👍🏻", " ", " ", " ", "\t", "\u{a0}", "\u{85}", "\u{1680}", "\u{2003}", "\u{2009}", "\u{2028}", "\u{2029}", "\u{202f}",
                "\u{205f}", "\u{3000}", "\u{3000}", "\r\n", "\n", "\r", "\u{b}", "\u{c}", "ﷺ", "\u{0e33}", "\u{1f}", "\u{7f}",
            ];
            let delims: Vec<&str> = vec!["", "", "…", "…", "...", "好", " ", "→", "\u{3000}", "[…]", "\u{200b}", "e\u{301}", "\t"];
            let mut calls = Vec::with_capacity(n);
            for i in 0..n {
                let api = if i % 3 == 0 { Api::Str } else { Api::Line };
                let nitems = if api == Api::Str { 1 } else { rng.usize(0..=5) };
                let ws_heavy = rng.u8(0..3) == 0;
                let items: Vec<String> = (0..nitems)
                    .map(|_| {
                        let len = rng.usize(0..=6);
                        (0..len)
                            .map(|_| {
                                if ws_heavy && rng.bool() {
                                    pool[28 + rng.usize(0..16)]
                                } else {
                                    pool[rng.usize(0..pool.len())]
                                }
                            })
                            .collect::<String>()
                    })
                    .collect();
                // what the implementation sees: labels drop CR and LF
                let items: Vec<String> = if api == Api::Line {
                    items.iter().map(|s| Label::new(s).content().to_owned()).collect()
                } else {
                    items
                };
                let total: usize = items.iter().map(|s| Cell::width(s.as_str())).sum();
                let width = if rng.u8(0..4) == 0 { rng.usize(0..=24) } else { rng.usize(0..=total + 1) };
                calls.push(Call { api, items, width, delim: delims[rng.usize(0..delims.len())].to_owned() });
            }
            let calls = Arc::new(calls);
            let outcomes = run_all(calls.clone());
            let mut vocab = Vocab { ids: HashMap::new() };
            for (c, outc) in calls.iter().zip(&outcomes) {
                let line: Vec<Vec<u64>> = c.items.iter().map(|s| vocab.string(s)).collect();
                let d = vocab.string(&c.delim);
                let (res, outl): (&str, Vec<Vec<u64>>) = match outc {
                    Outcome::Ok(items) => ("ok", items.iter().map(|s| vocab.string(s)).collect()),
                    Outcome::Panic(_) => ("panic", vec![]),
                    Outcome::Hang => ("hang", vec![]),
                    Outcome::Skipped => ("skipped", vec![]),
                };
                o.emit(&json!({"api": format!("{:?}", c.api), "line": line, "w": c.width, "d": d, "res": res, "out": outl,
                    "text": {"items": c.items, "delim": c.delim}}));
            }
            o.finish();
        }
        "call" => {
            // re-run single calls ({api, items, width, delim} per line) and print what happens
            let calls: Vec<Call> = read_ndjson(Path::new(args.req("--cases")))
                .iter()
                .map(|c| Call {
                    api: if c["api"] == "Str" { Api::Str } else { Api::Line },
                    items: c["items"].as_array().unwrap().iter().map(|s| s.as_str().unwrap().to_owned()).collect(),
                    width: c["width"].as_u64().unwrap() as usize,
                    delim: c["delim"].as_str().unwrap().to_owned(),
                })
                .collect();
            let calls = Arc::new(calls);
            for (c, outc) in calls.iter().zip(run_all(calls.clone())) {
                let (res, items, w) = match &outc {
                    Outcome::Ok(items) => ("ok".to_owned(), json!(items), json!(items.iter().map(|s| Cell::width(s.as_str())).sum::<usize>())),
                    Outcome::Panic(p) => (format!("panic: {p}"), json!(null), json!(null)),
                    Outcome::Hang => ("hang".to_owned(), json!(null), json!(null)),
                    Outcome::Skipped => ("skipped".to_owned(), json!(null), json!(null)),
                };
                o.emit(&json!({"api": format!("{:?}", c.api), "items": c.items, "width": c.width, "delim": c.delim,
                    "result": res, "out": items, "out_width": w}));
            }
            o.finish();
        }
        _ => fatal("unknown mode"),
    }
    // abandoned (spinning) workers must not keep the process alive
    std::process::exit(0);
}
