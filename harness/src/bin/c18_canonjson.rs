//! C18 — canonical JSON. Binds spec/CanonJson.tla to `radicle::canonical::formatter::CanonicalFormatter`
//! and its two users `radicle::cob::store::encoding::encode` and `radicle::identity::Doc::encode`.
//!
//! Values travel as the model writes them: `["null",0] ["bool",b] ["num",ascii] ["str",codepoints]
//! ["arr",[v..]] ["obj",[[key codepoints, v]..]]` (object members in insertion order).
//!
//! replay: every case `{v, exp, raw}` emitted by TLC is built as a real `serde_json::Value` (members
//!   inserted in the given order; numbers through `serde_json::from_str` of their text, so that
//!   out-of-range integers and float syntax become f64 exactly as they do in heartwood), serialised
//!   on the three real paths and compared byte for byte with the model's `Canon(v)` (`[-1]` = must
//!   be refused); the output is then decoded with serde_json and encoded again.
//! record: random values beyond the model's bounds (same alphabet; deeper, wider, longer) are
//!   encoded by the real code and logged for validation by TraceCanonJson.tla; in addition random
//!   values over a much wider slice of Unicode are checked in-process for the two clauses that
//!   need no oracle (encode . decode . encode = encode, and the decoded strings are NFC).
use std::path::Path;
use std::str::FromStr;

use hwv::*;
use radicle::verif::CanonicalFormatter;
use radicle::identity::doc::{Payload, PayloadId, RawDoc};
use serde::Serialize;
use unicode_normalization::{is_nfc, UnicodeNormalization};

type Bytes = Vec<u8>;

fn cps_to_string(v: &Value) -> String {
    v.as_array()
        .unwrap_or_else(|| fatal("string payload is not an array"))
        .iter()
        .map(|c| char::from_u32(c.as_u64().unwrap() as u32).unwrap_or_else(|| fatal("bad code point")))
        .collect()
}

/// Model value -> serde_json value.
fn build(v: &Value) -> Value {
    let kind = v[0].as_str().unwrap_or_else(|| fatal("value without kind"));
    let pay = &v[1];
    match kind {
        "null" => Value::Null,
        "bool" => Value::Bool(pay.as_bool().unwrap()),
        "num" => {
            let text: String = pay.as_array().unwrap().iter().map(|c| c.as_u64().unwrap() as u8 as char).collect();
            serde_json::from_str::<Value>(&text).unwrap_or_else(|e| fatal(&format!("number text {text:?}: {e}")))
        }
        "str" => Value::String(cps_to_string(pay)),
        "arr" => Value::Array(pay.as_array().unwrap().iter().map(build).collect()),
        "obj" => {
            let mut m = serde_json::Map::new();
            for kv in pay.as_array().unwrap() {
                let k = cps_to_string(&kv[0]);
                if m.insert(k, build(&kv[1])).is_some() {
                    fatal("case with a repeated raw key");
                }
            }
            Value::Object(m)
        }
        _ => fatal("unknown kind"),
    }
}

fn direct(v: &Value) -> Result<Bytes, String> {
    let mut buf = Vec::new();
    let mut ser = serde_json::Serializer::with_formatter(&mut buf, CanonicalFormatter::new());
    v.serialize(&mut ser).map_err(|e| e.to_string())?;
    Ok(buf)
}

fn via_cob(v: &Value) -> Result<Bytes, String> {
    radicle::cob::store::encoding::encode(v).map_err(|e| e.to_string())
}

/// The identity document that carries the case as a payload, and the bytes around it.
struct DocFrame {
    raw: RawDoc,
    id: PayloadId,
    prefix: Bytes,
    suffix: Bytes,
}

impl DocFrame {
    fn new() -> Self {
        let did = radicle::identity::Did::from(*radicle::node::device::Device::mock_from_seed([7; 32]).public_key());
        let text = format!(
            r#"{{"payload":{{"xyz.radicle.project":{{"name":"verif","description":"","defaultBranch":"master"}}}},"delegates":["{did}"],"threshold":1}}"#
        );
        let raw = RawDoc::from_json(text.as_bytes()).unwrap_or_else(|e| fatal(&format!("frame doc: {e}")));
        // "xyz.verif" sorts after "xyz.radicle.project", so the case is the last payload
        let id = PayloadId::from_str("xyz.verif").unwrap_or_else(|_| fatal("payload id"));
        let mut f = DocFrame { raw, id, prefix: vec![], suffix: vec![] };
        let sentinel = "@@SENTINEL@@";
        let bytes = f.encode(&Value::String(sentinel.into())).unwrap_or_else(|e| fatal(&format!("frame: {e}")));
        let needle = format!("\"{sentinel}\"").into_bytes();
        let at = bytes.windows(needle.len()).position(|w| w == needle.as_slice()).unwrap_or_else(|| fatal("sentinel not found"));
        f.prefix = bytes[..at].to_vec();
        f.suffix = bytes[at + needle.len()..].to_vec();
        f
    }
    fn encode(&self, v: &Value) -> Result<Bytes, String> {
        let mut raw = self.raw.clone();
        raw.payload.insert(self.id.clone(), Payload::from(v.clone()));
        let doc = raw.verified().map_err(|e| format!("verified: {e}"))?;
        let (oid, bytes) = doc.encode().map_err(|e| e.to_string())?;
        let expect = git2::Oid::hash_object(git2::ObjectType::Blob, &bytes).map_err(|e| e.to_string())?;
        if *oid != expect {
            return Err("Doc::encode: oid is not the blob hash of the bytes".into());
        }
        Ok(bytes)
    }
    /// Bytes of the payload inside the document, if the frame is intact.
    fn inner(&self, v: &Value) -> Result<Bytes, String> {
        let b = self.encode(v)?;
        if b.len() < self.prefix.len() + self.suffix.len() || !b.starts_with(&self.prefix) || !b.ends_with(&self.suffix) {
            return Err(format!("document frame changed: {}", String::from_utf8_lossy(&b)));
        }
        Ok(b[self.prefix.len()..b.len() - self.suffix.len()].to_vec())
    }
}

fn show(r: &Result<Bytes, String>) -> Value {
    match r {
        Ok(b) => json!({"bytes": b, "text": String::from_utf8_lossy(b)}),
        Err(e) => json!({"refused": e}),
    }
}

/// Judge one value against the expected bytes. Returns failure descriptions.
fn judge(frame: &DocFrame, v: &Value, exp: Option<&[u8]>) -> Vec<Value> {
    let mut fails = Vec::new();
    let paths: [(&str, Result<Bytes, String>); 3] = [
        ("CanonicalFormatter", guard(|| direct(v)).unwrap_or_else(|p| Err(format!("panic: {p}")))),
        ("cob::store::encoding::encode", guard(|| via_cob(v)).unwrap_or_else(|p| Err(format!("panic: {p}")))),
        ("Doc::encode", guard(|| frame.inner(v)).unwrap_or_else(|p| Err(format!("panic: {p}")))),
    ];
    for (name, got) in &paths {
        let ok = match (exp, got) {
            (Some(e), Ok(b)) => e == b.as_slice(),
            (None, Err(e)) => !e.starts_with("panic") && !e.starts_with("document frame"),
            _ => false,
        };
        if !ok {
            fails.push(json!({"path": name, "clause": "bytes", "got": show(got)}));
        }
        // decode the output, encode it again
        if let Ok(b) = got {
            match serde_json::from_slice::<Value>(b) {
                Err(e) => fails.push(json!({"path": name, "clause": "decodes", "got": show(got), "error": e.to_string()})),
                Ok(back) => {
                    let again = direct(&back);
                    if again.as_ref().ok() != Some(b) {
                        fails.push(json!({"path": name, "clause": "reencode", "got": show(got), "again": show(&again)}));
                    }
                }
            }
        }
    }
    fails
}

// ---------------------------------------------------------------- random values (record mode)

const ALPHABET: [u32; 11] = [98, 100, 101, 769, 233, 34, 92, 1, 10, 32, 127];
const NUMS: [&str; 13] = [
    "0", "-1", "7", "9223372036854775807", "9223372036854775808", "-9223372036854775808", "-9223372036854775809",
    "18446744073709551615", "18446744073709551616", "1.5", "1e3", "1E3", "8.0",
];

fn rnd_chars(rng: &mut fastrand::Rng, max: usize) -> Vec<u32> {
    let n = rng.usize(0..=max);
    (0..n)
        .map(|_| if rng.u8(0..3) == 0 { [101, 769][rng.usize(0..2)] } else { ALPHABET[rng.usize(0..ALPHABET.len())] })
        .collect()
}

/// Random value in the model's representation.
fn rnd_value(rng: &mut fastrand::Rng, depth: usize, floats: bool) -> Value {
    let leaf = depth == 0 || rng.u8(0..5) < 2;
    if leaf {
        match rng.u8(0..8) {
            0 => json!(["null", 0]),
            1 => json!(["bool", rng.bool()]),
            2 | 3 => {
                let t = if floats { NUMS[rng.usize(0..NUMS.len())] } else { NUMS[[0, 1, 2, 3, 4, 5, 7][rng.usize(0..7)]] };
                json!(["num", t.bytes().collect::<Vec<u8>>()])
            }
            _ => json!(["str", rnd_chars(rng, 8)]),
        }
    } else if rng.bool() {
        let n = rng.usize(0..=5);
        json!(["arr", (0..n).map(|_| rnd_value(rng, depth - 1, floats)).collect::<Vec<_>>()])
    } else {
        let n = rng.usize(0..=6);
        let mut keys: Vec<Vec<u32>> = Vec::new();
        let mut members = Vec::new();
        for _ in 0..n {
            let k = rnd_chars(rng, 4);
            if keys.contains(&k) {
                continue;
            }
            keys.push(k.clone());
            members.push(json!([k, rnd_value(rng, depth - 1, floats)]));
        }
        json!(["obj", members])
    }
}

/// Wider Unicode: Latin-1, combining marks with different classes, Hangul jamo and syllables,
/// compatibility characters, astral plane, controls.
fn wide_string(rng: &mut fastrand::Rng) -> String {
    const POOL: &[(u32, u32)] = &[
        (0x00, 0x7f), (0x80, 0xff), (0x300, 0x36f), (0x1100, 0x1112), (0x1161, 0x1175), (0x11a8, 0x11c2),
        (0xac00, 0xac40), (0x1e00, 0x1eff), (0x2000, 0x206f), (0xfb00, 0xfb06), (0x1f600, 0x1f64f), (0x0958, 0x095f),
        (0x0f40, 0x0f80), (0x212a, 0x212b),
    ];
    let n = rng.usize(0..10);
    (0..n)
        .filter_map(|_| {
            let (a, b) = POOL[rng.usize(0..POOL.len())];
            char::from_u32(rng.u32(a..=b))
        })
        .collect()
}

fn wide_value(rng: &mut fastrand::Rng, depth: usize) -> Value {
    if depth == 0 || rng.u8(0..4) == 0 {
        match rng.u8(0..5) {
            0 => Value::Null,
            1 => Value::from(rng.i64(..)),
            2 => Value::from(rng.u64(..)),
            _ => Value::String(wide_string(rng)),
        }
    } else if rng.bool() {
        Value::Array((0..rng.usize(0..4)).map(|_| wide_value(rng, depth - 1)).collect())
    } else {
        let mut m = serde_json::Map::new();
        for _ in 0..rng.usize(0..5) {
            m.insert(wide_string(rng), wide_value(rng, depth - 1));
        }
        Value::Object(m)
    }
}

fn all_strings_nfc(v: &Value) -> bool {
    match v {
        Value::String(s) => is_nfc(s),
        Value::Array(a) => a.iter().all(all_strings_nfc),
        Value::Object(m) => m.iter().all(|(k, x)| is_nfc(k) && all_strings_nfc(x)),
        _ => true,
    }
}

fn keys_sorted_as_emitted(v: &Value) -> bool {
    match v {
        Value::Array(a) => a.iter().all(keys_sorted_as_emitted),
        Value::Object(m) => {
            let toks: Vec<Bytes> = m.keys().map(|k| direct(&Value::String(k.clone())).unwrap()).collect();
            toks.windows(2).all(|w| w[0] < w[1]) && m.values().all(keys_sorted_as_emitted)
        }
        _ => true,
    }
}

fn main() {
    let args = Args::parse();
    quiet_panics();
    let mode = args.req("--mode").to_string();
    let out = Path::new(args.req("--out")).to_path_buf();
    let frame = DocFrame::new();
    match mode.as_str() {
        "replay" => {
            let cases = read_ndjson(Path::new(args.req("--cases")));
            let mut o = Out::create(&out);
            let (mut evals, mut refused, mut raw_differs) = (0u64, 0u64, 0u64);
            for c in &cases {
                let v = build(&c["v"]);
                let exp: Vec<i64> = c["exp"].as_array().unwrap().iter().map(|x| x.as_i64().unwrap()).collect();
                let expb: Option<Bytes> = if exp == [-1] { None } else { Some(exp.iter().map(|x| *x as u8).collect()) };
                if expb.is_none() {
                    refused += 1;
                }
                if c["raw"] == Value::Bool(false) {
                    raw_differs += 1;
                }
                let fails = judge(&frame, &v, expb.as_deref());
                evals += 3;
                for f in fails {
                    o.emit(&json!({"ok": false, "v": c["v"], "value": v.to_string(),
                        "expected": expb.as_ref().map(|b| String::from_utf8_lossy(b).to_string()), "fail": f}));
                }
            }
            o.emit(&json!({"summary": true, "cases": cases.len(), "evaluations": evals, "refused_expected": refused,
                "raw_key_order_differs": raw_differs}));
            o.finish();
        }
        "record" => {
            let n = args.num("--n", 500);
            let wide = args.num("--wide", 2000);
            let depth = args.num("--depth", 4) as usize;
            let mut rng = fastrand::Rng::with_seed(seed());
            let mut o = Out::create(&out);
            for i in 0..n {
                let mv = rnd_value(&mut rng, depth, i % 10 == 0);
                let v = build(&mv);
                let got = guard(|| direct(&v)).unwrap_or_else(|p| Err(format!("panic: {p}")));
                let cob = via_cob(&v);
                let doc = frame.inner(&v);
                // the three paths must agree before anything is logged
                let agree = match (&got, &cob, &doc) {
                    (Ok(a), Ok(b), Ok(c)) => a == b && a == c,
                    (Err(_), Err(_), Err(_)) => true,
                    _ => false,
                };
                let outb: Value = match &got {
                    Ok(b) if agree => json!(b),
                    Err(e) if agree && !e.starts_with("panic") => json!([-1]),
                    _ => json!([-2]), // never equal to a model result: trace validation rejects it
                };
                o.emit(&json!({"v": mv, "out": outb}));
            }
            o.finish();
            // oracle-free clauses on a wide slice of Unicode; failures go to a side file
            let side = out.with_extension("wide.ndjson");
            let mut w = Out::create(&side);
            let mut checked = 0u64;
            for _ in 0..wide {
                let v = wide_value(&mut rng, 3);
                let Ok(b) = direct(&v) else {
                    w.emit(&json!({"ok": false, "clause": "encodes", "value": v.to_string()}));
                    continue;
                };
                checked += 1;
                let mut bad = Vec::new();
                match serde_json::from_slice::<Value>(&b) {
                    Err(e) => bad.push(format!("does not decode: {e}")),
                    Ok(back) => {
                        if direct(&back).ok().as_ref() != Some(&b) {
                            bad.push("decode + encode changes the bytes".to_string());
                        }
                        if !all_strings_nfc(&back) {
                            bad.push("a decoded string is not NFC".to_string());
                        }
                        if !keys_sorted_as_emitted(&back) {
                            bad.push("emitted keys are not in byte order".to_string());
                        }
                        // the denoted value is the normalised input
                        fn norm(v: &Value) -> Value {
                            match v {
                                Value::String(s) => Value::String(s.nfc().collect()),
                                Value::Array(a) => Value::Array(a.iter().map(norm).collect()),
                                Value::Object(m) => {
                                    let mut t = std::collections::BTreeMap::new();
                                    for (k, x) in m {
                                        t.insert(k.nfc().collect::<String>(), norm(x));
                                    }
                                    Value::Object(t.into_iter().collect())
                                }
                                x => x.clone(),
                            }
                        }
                        fn unordered(v: &Value) -> Value {
                            match v {
                                Value::Array(a) => Value::Array(a.iter().map(unordered).collect()),
                                Value::Object(m) => {
                                    let t: std::collections::BTreeMap<String, Value> =
                                        m.iter().map(|(k, x)| (k.clone(), unordered(x))).collect();
                                    Value::Object(t.into_iter().collect())
                                }
                                x => x.clone(),
                            }
                        }
                        if unordered(&back) != norm(&v) {
                            bad.push("decoded value is not the normalised input".to_string());
                        }
                    }
                }
                if b.iter().any(|c| *c < 0x20) {
                    bad.push("raw control byte in output".to_string());
                }
                for m in bad {
                    w.emit(&json!({"ok": false, "clause": m, "value": v.to_string(), "bytes": String::from_utf8_lossy(&b)}));
                }
            }
            w.emit(&json!({"summary": true, "wide_checked": checked}));
            w.finish();
        }
        _ => fatal("unknown mode"),
    }
}
