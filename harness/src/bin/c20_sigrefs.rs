//! C20 — signed refs. Binds spec/SigRefs.tla to `radicle::storage::refs::{Refs, SignedRefs}`.
//!
//! Concretisation (per worker thread, on a real storage): two repositories with real identities
//! are created; oid 1 = the identity root commit of the repository the reader works in, oid 2 = the
//! identity root commit of the other repository (objects copied into the reader's object
//! database), oid >= 3 = an object id that does not exist, oid 0 = the zero oid.  Names are real
//! reference names (several tables with names at the edge of git's rules), sorted by bytes, with
//! `refs/rad/root` at the model's Root position.  Keys are real Ed25519 keys; a model signature
//! (key, message, ok) is the real signature by that key over the rendered bytes of the message,
//! with one bit flipped when `ok` is false.
//!
//! replay: one TLC state = {signed, blob, sig, claimed, res, refs}.  The blob is rendered to bytes
//!   and goes through (A) `Refs::from_canonical` + `SignedRefs::new(..).verified(repo)` and (B) a
//!   real commit holding the `refs` and `signature` blobs read back by `SignedRefs::load_at`.
//!   Gate: accepted or not, and the accepted references.  Drift: the error class.
//! record: larger random reference sets and 0..3 random mutations, real outcome logged for
//!   TraceSigRefs.tla; plus byte-level single-point mutations judged in-process by the statement
//!   itself (an accepted object carries exactly the signed refs under the signer's key).
use std::collections::{BTreeMap, HashMap};
use std::path::Path;

use hwv::*;
use radicle::crypto::signature::Signer as _;
use radicle::crypto::{PublicKey, Signature};
use radicle::git::Oid;
use radicle::node::device::Device;
use radicle::storage::git::Repository;
use radicle::storage::refs::{Error as RefsError, Refs, SignedRefs};
use radicle::storage::{ReadRepository, ReadStorage, WriteRepository, WriteStorage};
use radicle::Storage;
use radicle_crypto::test::signer::MockSigner;

const ROOT: &str = "refs/rad/root";
/// names sorting below / above refs/rad/root, each list sorted by bytes
const LOW: [&[&str]; 4] = [
    &["refs/cobs/xyz.radicle.issue/d1", "refs/heads/a", "refs/heads/b/c", "refs/heads/master", "refs/notes/commits"],
    &["refs/heads/-x", "refs/heads/@", "refs/heads/a.b@c", "refs/heads/a{b", "refs/heads/x.loc"],
    &["refs/heads/A", "refs/heads/a\u{a0}b", "refs/heads/feature/\u{fc}/1", "refs/heads/z\u{2028}", "refs/rad/id"],
    // the storage's own special names and look-alikes
    &["refs/cobs/rad/sigrefs", "refs/heads/rad/sigrefs", "refs/heads/sigrefs", "refs/notes/rad", "refs/rad/id"],
];
const HIGH: [&[&str]; 4] = [
    &["refs/rad/sigrefs2", "refs/tags/v1.0", "refs/tags/v1.0.1", "refs/tags/v2", "refs/y"],
    &["refs/rad/root-", "refs/rad/root/x", "refs/rad/rootx", "refs/tags/-", "refs/tags/v@1"],
    &["refs/rad/s", "refs/tags/a+b", "refs/tags/a=b", "refs/tags/\u{e9}", "refs/z\u{7fe}"],
    &["refs/rad/sigrefs", "refs/rad/sigrefs-x", "refs/rad/sigrefs/y", "refs/tags/sigrefs", "refs/xrad/sigrefs"],
];
const BAD_NAMES: [&str; 10] = [
    "refs/heads/a b", "refs/heads/a..b", "refs/heads/x.lock", "refs/heads/", "refs//x", "refs/heads/a\tb", "refs/heads/@{x",
    "refs/heads/a~", "", "refs/heads/a ",
];
const BAD_OIDS: [&str; 4] = ["zz00000000000000000000000000000000000000", "a30000000000000000000000000000000000000000", "", "-1"];

struct World {
    _tmp: tempfile::TempDir,
    repo: Repository,
    keys: Vec<Device<MockSigner>>,
    root_this: Oid,
    root_other: Oid,
    sig_cache: HashMap<(usize, Vec<u8>), [u8; 64]>,
}

impl World {
    fn new(dir: &Path) -> Self {
        let tmp = tempfile::tempdir_in(dir).expect("tempdir");
        let owner = Device::mock_from_seed([9; 32]);
        let storage = Storage::open(tmp.path().join("storage"), radicle::test::fixtures::user()).expect("storage");
        radicle::storage::git::transport::local::register(storage.clone());
        let suitable = |o: &Oid| {
            let h = o.to_string();
            h.bytes().any(|c| c.is_ascii_alphabetic()) && !h.ends_with('0')
        };
        // the identity root oids must have a distinct upper-case spelling and no trailing zero
        // (see SigRefs!FormApplies); retry with another description until they do
        let mut found: Vec<(radicle::identity::RepoId, Oid)> = Vec::new();
        let mut attempt = 0;
        while found.len() < 2 {
            attempt += 1;
            if attempt > 40 {
                fatal("cannot create suitable identities");
            }
            let name = format!("r{attempt}");
            let (working, _) = radicle::test::fixtures::repository(tmp.path().join(&name));
            let (rid, _, _) = radicle::rad::init(
                &working,
                name.as_str().try_into().unwrap(),
                "verif",
                radicle::git::refname!("master"),
                Default::default(),
                &owner,
                &storage,
            )
            .unwrap_or_else(|e| fatal(&format!("rad::init: {e}")));
            let root = storage.repository(rid).expect("repo").identity_root().expect("root");
            if suitable(&root) {
                found.push((rid, root));
            }
        }
        let repo = storage.repository_mut(found[0].0).expect("repo");
        let other = storage.repository(found[1].0).expect("other repo");
        let root_this = found[0].1;
        let root_other = found[1].1;
        {
            let from = other.raw().odb().unwrap();
            let to = repo.raw().odb().unwrap();
            from.foreach(|oid| {
                let obj = from.read(*oid).unwrap();
                to.write(obj.kind(), obj.data()).unwrap();
                true
            })
            .unwrap();
        }
        // self-checks of the concretisation (vacuity guards)
        for set in LOW.iter().chain(HIGH.iter()) {
            let mut v: Vec<&str> = set.to_vec();
            v.sort();
            if v != set.to_vec() {
                fatal("name table not sorted");
            }
            for n in set.iter() {
                if radicle::git::RefString::try_from(*n).is_err() {
                    fatal(&format!("name {n:?} is not a valid RefString"));
                }
            }
        }
        for (i, set) in LOW.iter().enumerate() {
            if !(set[set.len() - 1] < ROOT && ROOT < HIGH[i][0]) {
                fatal("root does not sort between the tables");
            }
        }
        for n in BAD_NAMES {
            if radicle::git::RefString::try_from(n).is_ok() {
                fatal(&format!("bad name {n:?} is accepted"));
            }
        }
        for o in BAD_OIDS {
            if o.parse::<Oid>().is_ok() {
                fatal(&format!("bad oid {o:?} is accepted"));
            }
        }
        if "a3".parse::<Oid>().ok() != Some(oid_of(3, root_this, root_other)) || "A3".parse::<Oid>().ok() != "a3".parse::<Oid>().ok() {
            fatal("abbreviated / upper-case hex does not denote the padded oid");
        }
        // objects written from here on (the sigrefs commits of the cases) stay in memory
        let odb = repo.raw().odb().expect("odb");
        let mempack = odb.add_new_mempack_backend(1000).expect("mempack");
        std::mem::forget(mempack);
        drop(odb);
        let keys = vec![Device::mock_from_seed([1; 32]), Device::mock_from_seed([2; 32]), Device::mock_from_seed([3; 32])];
        World { _tmp: tmp, repo, keys, root_this, root_other, sig_cache: HashMap::new() }
    }

    fn key(&self, k: usize) -> PublicKey {
        *self.keys[k - 1].public_key()
    }

    fn sign(&mut self, k: usize, msg: &[u8], ok: bool, salt: usize) -> Signature {
        let e = (k, msg.to_vec());
        let mut bytes = match self.sig_cache.get(&e) {
            Some(b) => *b,
            None => {
                let s: Signature = self.keys[k - 1].try_sign(msg).expect("sign");
                let mut b = [0u8; 64];
                b.copy_from_slice(s.as_ref());
                self.sig_cache.insert(e, b);
                b
            }
        };
        if !ok {
            bytes[salt % 64] ^= 1 << (salt % 8);
        }
        Signature::from(bytes)
    }
}

fn oid_of(o: i64, this: Oid, other: Oid) -> Oid {
    match o {
        0 => "0000000000000000000000000000000000000000".parse().unwrap(),
        1 => this,
        2 => other,
        n => format!("{:02x}{}", 0xa0 + n as u32, "0".repeat(38)).parse().unwrap(),
    }
}

/// The name table of a case: NN names sorted by bytes with refs/rad/root at position `root`.
fn names(nn: usize, root: usize, variety: usize) -> Vec<String> {
    let mut v: Vec<String> = Vec::new();
    if root == 0 {
        let lo = LOW[variety % 4];
        let hi = HIGH[variety % 4];
        let all: Vec<&str> = lo.iter().chain(hi.iter()).cloned().collect();
        if nn > all.len() {
            fatal("too many names");
        }
        return all[..nn].iter().map(|s| s.to_string()).collect();
    }
    let lo = LOW[variety % 4];
    let hi = HIGH[variety % 4];
    if root - 1 > lo.len() || nn - root > hi.len() {
        fatal("too many names");
    }
    v.extend(lo[lo.len() - (root - 1)..].iter().map(|s| s.to_string()));
    v.push(ROOT.to_string());
    v.extend(hi[..nn - root].iter().map(|s| s.to_string()));
    v
}

/// Render an abstract blob {lines: [[k, n, o, f]..], eol} to bytes.
fn render(b: &Value, names: &[String], w: &World, variety: usize) -> Vec<u8> {
    let lines = b["lines"].as_array().unwrap();
    let eol = b["eol"].as_str().unwrap();
    let mut out = Vec::new();
    for (i, l) in lines.iter().enumerate() {
        let kind = l[0].as_str().unwrap();
        let text = match kind {
            "ref" => {
                let n = l[1].as_u64().unwrap() as usize;
                let oid = oid_of(l[2].as_i64().unwrap(), w.root_this, w.root_other).to_string();
                let hex = match l[3].as_str().unwrap() {
                    "canon" => oid,
                    "upper" => oid.to_uppercase(),
                    "short" => {
                        let t = oid.trim_end_matches('0');
                        if t.is_empty() { "0".to_string() } else { t.to_string() }
                    }
                    _ => fatal("unknown form"),
                };
                format!("{hex} {}", names[n - 1])
            }
            "empty" => String::new(),
            "nospace" => ["deadbeef", "a300000000000000000000000000000000000000refs/heads/a", "refs/heads/a", "\t"][variety % 4].to_string(),
            "badoid" => format!("{} {}", BAD_OIDS[variety % BAD_OIDS.len()], names[0]),
            "badname" => format!("{} {}", oid_of(3, w.root_this, w.root_other), BAD_NAMES[variety % BAD_NAMES.len()]),
            _ => fatal("unknown line kind"),
        };
        out.extend_from_slice(text.as_bytes());
        let last = i + 1 == lines.len();
        match eol {
            "lf" => out.push(b'\n'),
            "crlf" => out.extend_from_slice(b"\r\n"),
            "nofinal" => {
                if !last {
                    out.push(b'\n')
                }
            }
            _ => fatal("unknown eol"),
        }
    }
    out
}

#[derive(Debug, PartialEq, Clone)]
struct Outcome {
    res: &'static str,
    refs: BTreeMap<String, String>,
    detail: String,
}

fn classify(r: Result<SignedRefs<radicle::crypto::Verified>, RefsError>) -> Outcome {
    match r {
        Ok(s) => Outcome {
            res: "ok",
            refs: s.refs.iter().map(|(n, o)| (n.to_string(), o.to_string())).collect(),
            detail: String::new(),
        },
        Err(e) => {
            let res = match &e {
                RefsError::InvalidSignature(_) => "signature",
                RefsError::MissingIdentity(_) | RefsError::MismatchedIdentity { .. } | RefsError::MissingIdentityRoot(_) => "identity",
                RefsError::Canonical(_) => "parse",
                _ => "other",
            };
            Outcome { res, refs: BTreeMap::new(), detail: e.to_string() }
        }
    }
}

/// Path A: parse, then verify.
fn path_a(w: &World, blob: &[u8], sig: Signature, key: PublicKey) -> Outcome {
    match guard(|| match Refs::from_canonical(blob) {
        Err(e) => Outcome { res: "parse", refs: BTreeMap::new(), detail: e.to_string() },
        Ok(refs) => classify(SignedRefs::new(refs, key, sig).verified(&w.repo)),
    }) {
        Ok(o) => o,
        Err(p) => Outcome { res: "panic", refs: BTreeMap::new(), detail: p },
    }
}

/// Path B: a real sigrefs commit read back with `SignedRefs::load_at`.
fn path_b(w: &World, blob: &[u8], sig: &[u8], key: PublicKey) -> Outcome {
    let raw = w.repo.raw();
    let commit = (|| -> Result<git2::Oid, git2::Error> {
        let rb = raw.blob(blob)?;
        let sb = raw.blob(sig)?;
        let mut tb = raw.treebuilder(None)?;
        tb.insert("refs", rb, 0o100_644)?;
        tb.insert("signature", sb, 0o100_644)?;
        let tree = raw.find_tree(tb.write()?)?;
        let who = git2::Signature::new("radicle", "verif", &git2::Time::new(1514817556, 0))?;
        raw.commit(None, &who, &who, "Update signed refs\n", &tree, &[])
    })()
    .unwrap_or_else(|e| fatal(&format!("cannot write sigrefs commit: {e}")));
    match guard(|| classify(SignedRefs::load_at(commit.into(), key, &w.repo))) {
        Ok(o) => o,
        Err(p) => Outcome { res: "panic", refs: BTreeMap::new(), detail: p },
    }
}

fn expected_refs(c: &Value, names: &[String], w: &World) -> BTreeMap<String, String> {
    c.as_array()
        .unwrap()
        .iter()
        .enumerate()
        .filter(|(_, o)| o.as_i64().unwrap() >= 0)
        .map(|(i, o)| (names[i].clone(), oid_of(o.as_i64().unwrap(), w.root_this, w.root_other).to_string()))
        .collect()
}

/// Run one abstract case on the real code. Returns (outcome A, outcome B or None).
fn run_case(w: &mut World, c: &Value, nn: usize, root: usize, idx: usize, with_commit: bool) -> (Outcome, Option<Outcome>, Vec<String>) {
    let nm = names(nn, root, idx);
    let blob = render(&c["blob"], &nm, w, idx);
    let msg = render(&c["sig"]["msg"], &nm, w, idx);
    let sig = w.sign(c["sig"]["key"].as_u64().unwrap() as usize, &msg, c["sig"]["ok"].as_bool().unwrap(), idx);
    let key = w.key(c["claimed"].as_u64().unwrap() as usize);
    let a = path_a(w, &blob, sig, key);
    let b = if with_commit { Some(path_b(w, &blob, sig.as_ref(), key)) } else { None };
    (a, b, nm)
}

// ------------------------------------------------------------------------------------------------

fn main() {
    let args = Args::parse();
    if std::env::var("HWV_LOUD").is_err() {
        quiet_panics();
    }
    let mode = args.req("--mode").to_string();
    let out = Path::new(args.req("--out")).to_path_buf();
    let work = std::env::current_dir().unwrap();
    match mode.as_str() {
        "replay" => {
            let cases = read_ndjson(Path::new(args.req("--cases")));
            let nn = args.num("--nn", 3) as usize;
            let root = args.num("--root", 2) as usize;
            let commit_every = args.num("--commit-every", 1) as usize;
            let nthreads = args.num("--threads", 6) as usize;
            let total = cases.len();
            let mut chunks: Vec<Vec<(usize, Value)>> = (0..nthreads).map(|_| Vec::new()).collect();
            for (i, c) in cases.into_iter().enumerate() {
                chunks[i % nthreads].push((i, c));
            }
            let handles: Vec<_> = chunks
                .into_iter()
                .map(|chunk| {
                    let work = work.clone();
                    std::thread::spawn(move || {
                        let mut recs = Vec::new();
                        let mut stats = [0u64; 6]; // evals, accepted, parse, signature, identity, drift
                        if chunk.is_empty() {
                            return (recs, stats);
                        }
                        let mut w = World::new(&work);
                        for (idx, c) in chunk {
                            let with_commit = idx % commit_every == 0;
                            let (a, b, nm) = run_case(&mut w, &c, nn, root, idx, with_commit);
                            let exp_res = c["res"].as_str().unwrap();
                            let exp_refs = if exp_res == "ok" { expected_refs(&c["refs"], &nm, &w) } else { BTreeMap::new() };
                            for (path, o) in [("from_canonical+verified", Some(a)), ("load_at", b)] {
                                let Some(o) = o else { continue };
                                stats[0] += 1;
                                match o.res {
                                    "ok" => stats[1] += 1,
                                    "parse" => stats[2] += 1,
                                    "signature" => stats[3] += 1,
                                    "identity" => stats[4] += 1,
                                    _ => {}
                                }
                                let gate = (o.res == "ok") == (exp_res == "ok") && o.refs == exp_refs && o.res != "panic";
                                let drift = gate && o.res != exp_res;
                                if drift {
                                    stats[5] += 1;
                                }
                                if !gate || (drift && recs.len() < 20) {
                                    recs.push(json!({"ok": gate, "drift": drift, "path": path, "case": c, "names": nm,
                                        "expected": {"res": exp_res, "refs": exp_refs},
                                        "actual": {"res": o.res, "refs": o.refs, "detail": o.detail}}));
                                }
                            }
                        }
                        (recs, stats)
                    })
                })
                .collect();
            let mut o = Out::create(&out);
            let mut stats = [0u64; 6];
            for h in handles {
                let (recs, s) = h.join().unwrap_or_else(|_| fatal("worker thread panicked"));
                for r in recs {
                    o.emit(&r);
                }
                for i in 0..6 {
                    stats[i] += s[i];
                }
            }
            o.emit(&json!({"summary": true, "cases": total, "evaluations": stats[0], "accepted": stats[1], "parse_errors": stats[2],
                "signature_errors": stats[3], "identity_errors": stats[4], "drift": stats[5]}));
            o.finish();
        }
        "record" => {
            // Larger random sets: NN names, Root in the middle, NO oids; 0..3 abstract mutations.
            let n = args.num("--n", 500);
            let nn = args.num("--nn", 10) as usize;
            let root = args.num("--root", 6) as usize;
            let no = args.num("--no", 6) as i64;
            let fuzz = args.num("--fuzz", 2000);
            let mut rng = fastrand::Rng::with_seed(seed());
            let mut w = World::new(&work);
            let mut o = Out::create(&out);
            for idx in 0..n as usize {
                // signed refs
                let mut signed: Vec<i64> = (0..nn).map(|_| if rng.u8(0..3) == 0 { -1 } else { rng.i64(1..=no) }).collect();
                signed[root - 1] = match rng.u8(0..6) {
                    0 => -1,
                    1 => 2,
                    2 => 3,
                    _ => 1,
                };
                if rng.u8(0..12) == 0 {
                    let i = rng.usize(0..nn);
                    signed[i] = 0;
                }
                let canon = |m: &Vec<i64>| -> Vec<Value> {
                    m.iter().enumerate().filter(|(_, o)| **o >= 0).map(|(i, o)| json!(["ref", i + 1, o, "canon"])).collect()
                };
                let mut lines = canon(&signed);
                let mut eol = "lf";
                let mut sig = json!({"key": 1, "ok": true, "msg": {"lines": lines.clone(), "eol": "lf"}});
                let mut claimed = 1;
                let nm = rng.usize(0..=3);
                for _ in 0..nm {
                    match rng.u8(0..12) {
                        0 if !lines.is_empty() => {
                            let i = rng.usize(0..lines.len());
                            if lines[i][0] == "ref" {
                                lines[i][2] = json!(rng.i64(0..=no));
                                lines[i][3] = json!("canon");
                            }
                        }
                        1 if !lines.is_empty() => {
                            let i = rng.usize(0..lines.len());
                            if lines[i][0] == "ref" {
                                lines[i][1] = json!(rng.usize(1..=nn));
                            }
                        }
                        2 if !lines.is_empty() => {
                            let i = rng.usize(0..lines.len());
                            lines.remove(i);
                        }
                        3 => {
                            let i = rng.usize(0..=lines.len());
                            lines.insert(i, json!(["ref", rng.usize(1..=nn), rng.i64(0..=no), "canon"]));
                        }
                        4 => {
                            let i = rng.usize(0..=lines.len());
                            let k = ["empty", "nospace", "badoid", "badname"][rng.usize(0..4)];
                            lines.insert(i, json!([k, 0, 0, "canon"]));
                        }
                        5 if lines.len() >= 2 => {
                            let i = rng.usize(0..lines.len() - 1);
                            lines.swap(i, i + 1);
                        }
                        6 if !lines.is_empty() => {
                            let i = rng.usize(0..lines.len());
                            if lines[i][0] == "ref" {
                                let ov = lines[i][2].as_i64().unwrap();
                                let f = ["upper", "short"][rng.usize(0..2)];
                                if (f == "upper" && ov != 0) || (f == "short" && ov != 1 && ov != 2) {
                                    lines[i][3] = json!(f);
                                }
                            }
                        }
                        7 => eol = ["lf", "crlf", "nofinal"][rng.usize(0..3)],
                        8 => sig["ok"] = json!(false),
                        9 => sig = json!({"key": rng.usize(1..=2), "ok": true, "msg": {"lines": lines.clone(), "eol": eol}}),
                        10 => claimed = rng.usize(1..=2),
                        _ => {
                            // re-sign the canonical text of what the blob parses to, if it parses
                            let mut m: Vec<i64> = vec![-1; nn];
                            let mut okp = true;
                            for l in &lines {
                                if l[0] != "ref" {
                                    okp = false;
                                    break;
                                }
                                let ov = l[2].as_i64().unwrap();
                                if ov != 0 {
                                    m[l[1].as_u64().unwrap() as usize - 1] = ov;
                                }
                            }
                            if okp {
                                sig = json!({"key": rng.usize(1..=2), "ok": true, "msg": {"lines": canon(&m), "eol": "lf"}});
                            }
                        }
                    }
                }
                // keep the abstraction injective on bytes (see SigRefs!WellFormedBlob)
                if lines.is_empty() {
                    eol = "lf";
                }
                if eol == "nofinal" && lines.last().map(|l| l[0] == "empty").unwrap_or(false) {
                    eol = "lf";
                }
                if sig["msg"]["lines"].as_array().unwrap().is_empty() {
                    sig["msg"]["eol"] = json!("lf");
                }
                if sig["msg"]["eol"] == "nofinal" && sig["msg"]["lines"].as_array().unwrap().last().map(|l| l[0] == "empty").unwrap_or(false) {
                    sig["msg"]["eol"] = json!("lf");
                }
                let case = json!({"signer": 1, "signed": signed, "blob": {"lines": lines, "eol": eol}, "sig": sig, "claimed": claimed});
                let (a, b, nmz) = run_case(&mut w, &case, nn, root, idx, true);
                let b = b.unwrap();
                // both real paths must agree before the answer is logged
                let res = if a.res == b.res && a.refs == b.refs { a.res } else { "paths-disagree" };
                let mut refs: Vec<i64> = vec![-1; nn];
                let mut foreign = false;
                for (name, oid) in &a.refs {
                    match nmz.iter().position(|x| x == name) {
                        Some(i) => {
                            let ov = (0..=no).find(|o| oid_of(*o, w.root_this, w.root_other).to_string() == *oid);
                            match ov {
                                Some(v) => refs[i] = v,
                                None => foreign = true,
                            }
                        }
                        None => foreign = true,
                    }
                }
                let mut rec = case;
                rec["res"] = json!(if foreign { "foreign-refs" } else { res });
                rec["refs"] = json!(refs);
                o.emit(&rec);
            }
            o.finish();

            // Byte-level single-point mutations, judged by the statement.
            let side = out.with_extension("fuzz.ndjson");
            let mut f = Out::create(&side);
            let (mut tried, mut accepted) = (0u64, 0u64);
            for idx in 0..fuzz as usize {
                let nrefs = rng.usize(1..=25);
                let mut map: BTreeMap<radicle::git::RefString, Oid> = BTreeMap::new();
                let tbl = names(11, 6, idx);
                for _ in 0..nrefs {
                    let base = &tbl[rng.usize(0..tbl.len())];
                    let name = if base == ROOT || rng.bool() { base.clone() } else { format!("{base}/{}", rng.u32(0..50)) };
                    let Ok(rs) = radicle::git::RefString::try_from(name.as_str()) else { continue };
                    let oid = if name == ROOT {
                        w.root_this
                    } else {
                        (0..40).map(|_| char::from_digit(rng.u32(0..16), 16).unwrap()).collect::<String>().parse().unwrap()
                    };
                    map.insert(rs, oid);
                }
                let refs = Refs::from(map);
                let signer = rng.usize(1..=2);
                let signed = refs.clone().signed(&w.keys[signer - 1]).expect("sign");
                let blob = refs.canonical();
                // honest object must be accepted and round-trip
                let honest = path_b(&w, &blob, signed.signature.as_ref(), w.key(signer));
                let want: BTreeMap<String, String> = refs.iter().map(|(n, o)| (n.to_string(), o.to_string())).collect();
                if honest.res != "ok" || honest.refs != want {
                    f.emit(&json!({"ok": false, "clause": "honest object rejected or changed", "blob": String::from_utf8_lossy(&blob), "actual": {"res": honest.res, "detail": honest.detail}}));
                }
                if Refs::from_canonical(&blob).ok().as_ref() != Some(&refs) {
                    f.emit(&json!({"ok": false, "clause": "canonical text does not parse back to the same set", "blob": String::from_utf8_lossy(&blob)}));
                }
                // one byte changed somewhere
                let mut b2 = blob.clone();
                let mut s2 = [0u8; 64];
                s2.copy_from_slice(signed.signature.as_ref());
                let mut k2 = [0u8; 32];
                k2.copy_from_slice(w.key(signer).as_ref());
                let what = match rng.u8(0..4) {
                    0 | 1 if !b2.is_empty() => {
                        let i = rng.usize(0..b2.len());
                        match rng.u8(0..3) {
                            0 => b2[i] ^= 1 << rng.u8(0..8),
                            1 => {
                                b2.remove(i);
                            }
                            _ => b2.insert(i, b"0a /\n\r "[rng.usize(0..7)]),
                        }
                        "blob"
                    }
                    2 => {
                        s2[rng.usize(0..64)] ^= 1 << rng.u8(0..8);
                        "signature"
                    }
                    _ => {
                        k2[rng.usize(0..32)] ^= 1 << rng.u8(0..8);
                        "key"
                    }
                };
                tried += 1;
                let key2 = PublicKey::from(k2);
                let got = path_b(&w, &b2, &s2, key2);
                if got.res == "ok" {
                    accepted += 1;
                    let same = got.refs == want && key2 == w.key(signer) && what == "blob";
                    if !same {
                        f.emit(&json!({"ok": false, "clause": format!("mutated {what} accepted with refs or key that were not signed"),
                            "blob": String::from_utf8_lossy(&b2), "accepted": got.refs}));
                    }
                } else if got.res == "panic" {
                    f.emit(&json!({"ok": false, "clause": format!("panic on mutated {what}: {}", got.detail), "blob": String::from_utf8_lossy(&b2)}));
                }
            }
            f.emit(&json!({"summary": true, "byte_mutations": tried, "accepted_equivalent_spelling": accepted}));
            f.finish();
        }
        _ => fatal("unknown mode"),
    }
}
