//! C04 — identity revisions need a majority of valid delegate signatures.
//! Binds spec/Identity.tla to `radicle::cob::identity::Identity` evaluated by `radicle_cob`.
//!
//! A *history* is a list of changes in evaluation order, each with its author, its actions, its
//! parents (indices of earlier changes, 0 = the root) and the step of the model that evaluates it.
//! The engine materialises a history as REAL change commits of the identity COB of a real
//! `Repository` (raw `change::Storage::store`, so that invalid signatures, duplicate verdicts and
//! non-delegate authors can be stored), points one `refs/namespaces/<k>/refs/cobs/xyz.radicle.id/<id>`
//! reference at every tip, evaluates with the real `cob::get::<Identity>` and projects the result
//! (current, revisions with state / verdicts, heads, surviving changes).
//!
//! replay: histories + predicted projection emitted by TLC (MCIdentity) -> compare; plus checks of
//!         the C04 statement made directly on the real object (majority of verifying signatures on
//!         every link of the accepted chain; a change by a non-delegate leaves the object as it
//!         was; accepted revisions are stable).
//! record: random longer histories built adaptively from the real state; one record per change
//!         with the real projection where the prefix is a complete history -> TraceIdentity.tla.
use std::collections::{BTreeMap, BTreeSet, HashMap};
use std::path::Path;

use hwv::*;
use nonempty::NonEmpty;
use radicle::cob::identity::{Action, Identity, Verdict, TYPENAME};
use radicle::cob::store::encoding::encode;
use radicle::crypto::test::signer::MockSigner;
use radicle::crypto::{PublicKey, Signature};
use radicle::git::Oid;
use radicle::identity::doc::{Doc, RawDoc};
use radicle::identity::project::Project;
use radicle::identity::{Did, Visibility};
use radicle::node::device::Device;
use radicle::storage::git::Repository;
use radicle::Storage;
use radicle_cob::change::{Storage as _, Template};
use radicle_cob::object::Storage as _;
use radicle_cob::{Embed, ObjectId};
use signature::Signer as _;

const NOREV: u64 = 99;
const NOPARENT: u64 = 98;
const T0: i64 = 1_600_000_000;

struct World {
    _tmp: tempfile::TempDir,
    repo: Repository,
    root: Oid,
    keys: BTreeMap<String, Device<MockSigner>>,
    names: HashMap<PublicKey, String>,
    /// docs[i-1] = (document i, blob id, bytes)
    docs: Vec<(Doc, Oid)>,
    doc_of_blob: HashMap<Oid, usize>,
    memo: HashMap<String, Oid>,
    tipkeys: Vec<PublicKey>,
    tips_set: usize,
    norev: Oid,
    pub commits: usize,
    pub evals: usize,
}

fn device(name: &str) -> Device<MockSigner> {
    let mut seed = [0u8; 32];
    for (i, b) in name.bytes().cycle().take(32).enumerate() {
        seed[i] = b;
    }
    Device::mock_from_seed(seed)
}

impl World {
    /// world = {"docs": [[keys...], ...], "init": 1, "keys": ["a", ...]}
    fn new(dir: &Path, world: &Value) -> Self {
        let tmp = tempfile::tempdir_in(dir).expect("tempdir");
        let mut keys = BTreeMap::new();
        let mut names = HashMap::new();
        for k in world["keys"].as_array().expect("keys") {
            let k = k.as_str().unwrap().to_string();
            let d = device(&k);
            names.insert(*d.public_key(), k.clone());
            keys.insert(k, d);
        }
        let project = Project::new(
            "verif".try_into().unwrap(),
            "identity".to_string(),
            radicle_git_ext::ref_format::refname!("master"),
        )
        .expect("project");
        let mut docs = Vec::new();
        for (i, dels) in world["docs"].as_array().expect("docs").iter().enumerate() {
            let mut names: Vec<String> =
                dels.as_array().unwrap().iter().map(|k| k.as_str().unwrap().to_string()).collect();
            names.sort();
            let dids: Vec<Did> = names.iter().map(|k| Did::from(*keys[k].public_key())).collect();
            let project = project
                .clone()
                .update(None, format!("document {}", i + 1), None)
                .expect("project update");
            let raw = RawDoc::new(project, dids, 1, Visibility::Public);
            let doc = raw.verified().expect("doc");
            let (blob, _) = doc.encode().expect("encode");
            docs.push((doc, blob));
        }
        let init = world["init"].as_u64().unwrap() as usize;
        let founder_name = {
            let mut n: Vec<String> = world["docs"][init - 1]
                .as_array()
                .unwrap()
                .iter()
                .map(|k| k.as_str().unwrap().to_string())
                .collect();
            n.sort();
            n[0].clone()
        };
        let founder = &keys[&founder_name];
        let storage = Storage::open(
            tmp.path().join("storage"),
            radicle::git::UserInfo {
                alias: radicle::node::Alias::new("verif"),
                key: *founder.public_key(),
            },
        )
        .expect("storage");
        std::env::set_var("GIT_COMMITTER_DATE", T0.to_string());
        let (repo, root) = Repository::init(&docs[init - 1].0, &storage, founder).expect("init repository");
        // store every document blob
        let mut doc_of_blob = HashMap::new();
        for (i, (doc, blob)) in docs.iter().enumerate() {
            let (_, bytes) = doc.encode().unwrap();
            let oid = repo.backend.blob(&bytes).expect("blob");
            assert_eq!(Oid::from(oid), *blob);
            doc_of_blob.insert(*blob, i + 1);
        }
        let tipkeys = (0..8).map(|i| *device(&format!("tip{i}")).public_key()).collect();
        let norev = Oid::from(git2::Oid::hash_object(git2::ObjectType::Blob, b"no such revision").unwrap());
        World {
            _tmp: tmp,
            repo,
            root,
            keys,
            names,
            docs,
            doc_of_blob,
            memo: HashMap::new(),
            tipkeys,
            tips_set: 0,
            norev,
            commits: 0,
            evals: 0,
        }
    }

    fn target(&self, t: u64, oids: &[Oid]) -> Oid {
        // oids[0] = root, oids[i] = change i
        if (t as usize) < oids.len() {
            oids[t as usize]
        } else {
            self.norev
        }
    }

    /// The blob of the document that revision `t` of this history proposes (None if `t` is not a
    /// revision-creating change).
    fn blob_of_rev(&self, t: u64, log: &[Value], init: usize) -> Option<Oid> {
        if t == 0 {
            return Some(self.docs[init - 1].1);
        }
        let e = log.get(t as usize - 1)?;
        for a in e["op"]["acts"].as_array()? {
            if a["t"] == "revision" {
                let d = a["doc"].as_u64()? as usize;
                return self.docs.get(d - 1).map(|x| x.1);
            }
        }
        None
    }

    fn bad_signature(&self, signer: &Device<MockSigner>, i: usize, other: Oid) -> Signature {
        // two classes of invalid signature: over unrelated bytes, and a genuine signature of the
        // author over a *different* blob
        if i % 2 == 0 {
            signer.sign(format!("garbage {i}").as_bytes())
        } else {
            signer.sign(other.as_bytes())
        }
    }

    /// Materialise the changes of a history; returns oids (index 0 = root).
    fn materialise(&mut self, log: &[Value], init: usize) -> Vec<Oid> {
        let mut oids = vec![self.root];
        for (ix, e) in log.iter().enumerate() {
            let i = ix + 1;
            let author = e["op"]["author"].as_str().unwrap().to_string();
            let signer = self.keys.get(&author).unwrap_or_else(|| fatal("unknown author")).clone();
            let mut contents = Vec::new();
            let mut embeds: Vec<Embed<Oid>> = Vec::new();
            for a in e["op"]["acts"].as_array().unwrap() {
                let t = a["t"].as_str().unwrap();
                let rev = a["rev"].as_u64().unwrap();
                let sig_ok = a["sig"].as_bool().unwrap_or(true);
                let action = match t {
                    "revision" => {
                        let d = a["doc"].as_u64().unwrap() as usize;
                        let blob = self.docs[d - 1].1;
                        let other = self.docs[d % self.docs.len()].1;
                        let signature =
                            if sig_ok { signer.sign(blob.as_bytes()) } else { self.bad_signature(&signer, i, other) };
                        embeds.push(Embed { name: "radicle.json".to_string(), content: blob });
                        Action::Revision {
                            title: format!("rev-{i}"),
                            description: String::new(),
                            blob,
                            parent: if rev == NOPARENT { None } else { Some(self.target(rev, &oids)) },
                            signature,
                        }
                    }
                    "accept" => {
                        let blob = self.blob_of_rev(rev, log, init);
                        let signature = match (sig_ok, blob) {
                            (true, Some(b)) => signer.sign(b.as_bytes()),
                            (true, None) => signer.sign(b"nothing"),
                            (false, b) => self.bad_signature(&signer, i, b.map(|_| self.docs[0].1).unwrap_or(self.norev)),
                        };
                        // a "wrong blob" signature must really be over another blob
                        let signature = match (sig_ok, blob) {
                            (false, Some(b)) if i % 2 == 1 => {
                                let other = self.docs.iter().map(|d| d.1).find(|o| *o != b).unwrap();
                                signer.sign(other.as_bytes())
                            }
                            _ => signature,
                        };
                        Action::RevisionAccept { revision: self.target(rev, &oids), signature }
                    }
                    "reject" => Action::RevisionReject { revision: self.target(rev, &oids) },
                    "redact" => Action::RevisionRedact { revision: self.target(rev, &oids) },
                    "edit" => Action::RevisionEdit {
                        revision: self.target(rev, &oids),
                        title: format!("edit-{i}"),
                        description: String::new(),
                    },
                    _ => fatal("unknown action type"),
                };
                contents.push(encode(&action).expect("encode action"));
            }
            let parents: Vec<Oid> =
                e["par"].as_array().unwrap().iter().map(|p| oids[p.as_u64().unwrap() as usize]).collect();
            let step = e["step"].as_str().unwrap_or("");
            // evaluation order of the children of the root is by descending id (see Identity.tla /
            // ChangeGraph::evaluate): the first branch of a fork at the root needs the greater id
            let at_root = parents.len() == 1 && parents[0] == self.root;
            let want: Option<bool> = match (at_root, step) {
                (true, "forkx") => Some(true),  // high id
                (true, "forky") => Some(false), // low id
                _ => None,
            };
            let key = format!(
                "{}|{}|{}|{:?}|{}",
                parents.iter().map(|p| p.to_string()).collect::<Vec<_>>().join(","),
                author,
                contents.iter().map(|c| String::from_utf8_lossy(c).to_string()).collect::<Vec<_>>().join(";"),
                want,
                i
            );
            if let Some(oid) = self.memo.get(&key) {
                oids.push(*oid);
                continue;
            }
            std::env::set_var("GIT_COMMITTER_DATE", (T0 + i as i64).to_string());
            let mut nonce = 0;
            let oid = loop {
                let entry = self
                    .repo
                    .store(
                        None,
                        vec![],
                        &signer,
                        Template {
                            type_name: TYPENAME.clone(),
                            tips: parents.clone(),
                            message: format!("change {i} #{nonce}"),
                            embeds: embeds.clone(),
                            contents: NonEmpty::from_vec(contents.clone()).unwrap(),
                        },
                    )
                    .unwrap_or_else(|e| fatal(&format!("store change: {e}")));
                self.commits += 1;
                let high = entry.id.as_bytes()[0] >= 0x80;
                match want {
                    Some(w) if w != high => nonce += 1,
                    _ => break entry.id,
                }
            };
            self.memo.insert(key, oid);
            oids.push(oid);
        }
        oids
    }

    /// Point references at the tips of the history made of changes 1..=upto.
    fn set_tips(&mut self, log: &[Value], oids: &[Oid], upto: usize) {
        let mut has_child = vec![false; upto + 1];
        for e in log.iter().take(upto) {
            for p in e["par"].as_array().unwrap() {
                has_child[p.as_u64().unwrap() as usize] = true;
            }
        }
        let tips: Vec<Oid> = (0..=upto).filter(|i| !has_child[*i]).map(|i| oids[i]).collect();
        if tips.len() > self.tipkeys.len() {
            fatal("too many tips");
        }
        let id = ObjectId::from(self.root);
        for (i, k) in self.tipkeys.clone().iter().enumerate() {
            if i < tips.len() {
                radicle_cob::object::Storage::update(&self.repo, k, &TYPENAME, &id, &tips[i]).unwrap_or_else(|e| fatal(&format!("update ref: {e}")));
            } else if i < self.tips_set {
                radicle_cob::object::Storage::remove(&self.repo, k, &TYPENAME, &id).unwrap_or_else(|e| fatal(&format!("remove ref: {e}")));
            }
        }
        self.tips_set = tips.len();
    }

    /// Evaluate with the real code and project. Err(msg) on panic / error.
    fn evaluate(&mut self, oids: &[Oid], upto: usize, init: usize) -> Result<Value, String> {
        self.evals += 1;
        let id = ObjectId::from(self.root);
        let repo = &self.repo;
        let cob = guard(|| radicle::cob::get::<Identity, _>(repo, &TYPENAME, &id))
            .map_err(|p| format!("panic: {p}"))?
            .map_err(|e| format!("error: {e}"))?
            .ok_or_else(|| "not found".to_string())?;
        let identity = &cob.object;
        let ix: HashMap<Oid, usize> = oids.iter().take(upto + 1).enumerate().map(|(i, o)| (*o, i)).collect();
        let idx = |o: &Oid| -> i64 { ix.get(o).map(|i| *i as i64).unwrap_or(-1) };
        let name = |k: &PublicKey| -> String { self.names.get(k).cloned().unwrap_or_else(|| "?".into()) };
        let json = serde_json::to_value(identity).map_err(|e| format!("serialize: {e}"))?;
        let mut revs = Vec::new();
        let mut statement = Vec::new();
        let mut by_id: BTreeMap<i64, Value> = BTreeMap::new();
        for (k, v) in json["revisions"].as_object().ok_or("no revisions field")? {
            let oid: Oid = k.parse().map_err(|_| "bad revision key".to_string())?;
            let i = idx(&oid);
            if v.is_null() {
                by_id.insert(i, json!({"id": i, "parent": NOREV, "author": "-", "doc": 0, "state": "redacted",
                                        "title": 0, "accepts": [], "rejects": []}));
                continue;
            }
            let r = identity.revision(&oid).ok_or("revision not accessible")?;
            let mut accepts = BTreeSet::new();
            let mut rejects = BTreeSet::new();
            let mut valid = BTreeSet::new();
            for (key, verdict) in r.verdicts() {
                match verdict {
                    Verdict::Accept(sig) => {
                        accepts.insert(name(key));
                        if key.verify(r.blob.as_bytes(), sig).is_ok() {
                            valid.insert(*key);
                        }
                    }
                    Verdict::Reject => {
                        rejects.insert(name(key));
                    }
                }
            }
            let title = if r.title.starts_with("edit-") { r.title[5..].parse::<i64>().unwrap_or(-1) } else { 0 };
            let parent = r.parent.map(|p| idx(&p)).unwrap_or(NOREV as i64);
            let author = if i == 0 { "-".to_string() } else { name(r.author.public_key()) };
            let (accepts, rejects): (Vec<_>, Vec<_>) = if i == 0 {
                (vec![], vec![]) // the root's own signature is not part of the model
            } else {
                (accepts.into_iter().collect(), rejects.into_iter().collect())
            };
            by_id.insert(
                i,
                json!({"id": i, "parent": parent, "author": author,
                       "doc": self.doc_of_blob.get(&r.blob).map(|d| *d as i64).unwrap_or(-1),
                       "state": r.state.to_string(), "title": title, "accepts": accepts, "rejects": rejects}),
            );
            // statement, clause 1: an accepted revision other than the root carries verifying
            // signatures of a strict majority of the delegates of the document it replaced
            if r.is_accepted() && i != 0 {
                match r.parent.and_then(|p| identity.revision(&p)) {
                    None => statement.push(format!("accepted revision {i} has no (or a redacted) parent")),
                    Some(p) => {
                        if !p.is_accepted() {
                            statement.push(format!("accepted revision {i} has a parent that is not accepted"));
                        }
                        let dels = p.doc.delegates();
                        let n = dels.iter().filter(|d| valid.contains(&***d)).count();
                        if 2 * n <= dels.len() {
                            statement.push(format!(
                                "revision {i} is accepted with verifying signatures of {n} of the {} delegates of the document it replaced",
                                dels.len()
                            ));
                        }
                    }
                }
            }
        }
        for (_, v) in by_id {
            revs.push(v);
        }
        let cur = identity.current;
        if !identity.revision(&cur).map(|r| r.is_accepted()).unwrap_or(false) {
            statement.push("the current revision is redacted or not in state accepted".to_string());
        }
        let mut heads = serde_json::Map::new();
        for (did, r) in identity.heads.iter() {
            heads.insert(name(did), json!(idx(r)));
        }
        let graph = cob.history.graph();
        let survivors: Vec<usize> = (0..=upto).filter(|i| graph.contains(&oids[*i])).collect();
        let _ = init;
        Ok(json!({"current": idx(&cur), "revs": revs, "heads": heads, "survivors": survivors,
                  "statement": statement}))
    }
}

/// Compare the model's prediction with the real projection. Returns (gating differences, drift).
fn compare(exp: &Value, real: &Value, log: &[Value]) -> (Vec<String>, Vec<String>) {
    let mut gate = Vec::new();
    let mut drift = Vec::new();
    if exp["current"] != real["current"] {
        gate.push(format!("current: model {} real {}", exp["current"], real["current"]));
    }
    let mut eh: Vec<(String, i64)> =
        exp["heads"].as_object().map(|m| m.iter().map(|(k, v)| (k.clone(), v.as_i64().unwrap())).collect()).unwrap_or_default();
    let mut rh: Vec<(String, i64)> =
        real["heads"].as_object().map(|m| m.iter().map(|(k, v)| (k.clone(), v.as_i64().unwrap())).collect()).unwrap_or_default();
    eh.sort();
    rh.sort();
    if eh != rh {
        gate.push(format!("heads: model {eh:?} real {rh:?}"));
    }
    let er: BTreeMap<i64, &Value> = exp["revs"].as_array().unwrap().iter().map(|r| (r["id"].as_i64().unwrap(), r)).collect();
    let rr: BTreeMap<i64, &Value> = real["revs"].as_array().unwrap().iter().map(|r| (r["id"].as_i64().unwrap(), r)).collect();
    let ids: BTreeSet<i64> = er.keys().chain(rr.keys()).copied().collect();
    for id in ids {
        match (er.get(&id), rr.get(&id)) {
            (Some(e), Some(r)) => {
                for f in ["state", "accepts", "parent", "author", "doc"] {
                    if sorted(&e[f]) != sorted(&r[f]) {
                        gate.push(format!("revision {id} {f}: model {} real {}", e[f], r[f]));
                    }
                }
                if e["title"] != r["title"] {
                    if e["state"] == "accepted" || r["state"] == "accepted" {
                        gate.push(format!("revision {id} title: model {} real {}", e["title"], r["title"]));
                    } else {
                        drift.push(format!("revision {id} title: model {} real {}", e["title"], r["title"]));
                    }
                }
                if sorted(&e["rejects"]) != sorted(&r["rejects"]) {
                    drift.push(format!("revision {id} rejects: model {} real {}", e["rejects"], r["rejects"]));
                }
            }
            (Some(e), None) => gate.push(format!("revision {id} ({}) missing in the real object", e["state"])),
            (None, Some(r)) => gate.push(format!("revision {id} ({}) only in the real object", r["state"])),
            _ => {}
        }
    }
    // survivors: changes that were applied
    let exp_surv: Vec<usize> = std::iter::once(0)
        .chain(log.iter().enumerate().filter(|(_, e)| e["out"] == "applied").map(|(i, _)| i + 1))
        .collect();
    let real_surv: Vec<usize> = real["survivors"].as_array().unwrap().iter().map(|v| v.as_u64().unwrap() as usize).collect();
    // Which changes stay in the history is not part of the C04 statement (a refused change that had
    // no effect on the object may as well be kept): informational. If keeping/pruning matters, the
    // descendants of the change (skipped in the model) show up in the object.
    if exp_surv != real_surv {
        drift.push(format!("surviving changes: model {exp_surv:?} real {real_surv:?}"));
    }
    (gate, drift)
}

fn sorted(v: &Value) -> Value {
    match v.as_array() {
        Some(a) => {
            let mut s: Vec<String> = a.iter().map(|x| x.to_string()).collect();
            s.sort();
            json!(s)
        }
        None => v.clone(),
    }
}

fn shape(log: &[Value]) -> String {
    log.iter()
        .map(|e| {
            let acts: Vec<String> = e["op"]["acts"]
                .as_array()
                .unwrap()
                .iter()
                .map(|a| {
                    let t = a["t"].as_str().unwrap();
                    match t {
                        "revision" => format!("revision(p{},d{},{})", a["rev"], a["doc"], if a["sig"] == true { "ok" } else { "bad" }),
                        "accept" => format!("accept({},{})", a["rev"], if a["sig"] == true { "ok" } else { "bad" }),
                        _ => format!("{t}({})", a["rev"]),
                    }
                })
                .collect();
            format!("{}:{}:{}", e["step"].as_str().unwrap_or("?"), e["op"]["author"].as_str().unwrap(), acts.join("+"))
        })
        .collect::<Vec<_>>()
        .join(" ")
}

fn replay(world: &Value, cases: &[Value], out: &mut Out, dir: &Path) -> Value {
    let mut w = World::new(dir, world);
    let init = world["init"].as_u64().unwrap() as usize;
    let mut failures = 0usize;
    let mut drifts = 0usize;
    let mut nontrivial = 0usize;
    let mut stmt_checks = 0usize;
    let mut step_checks = 0usize;
    // real projections by history, to check the step clauses of the statement on linear extensions
    let mut seen: HashMap<String, Value> = HashMap::new();
    // shorter histories first so that the predecessor of a linear extension is known
    let mut order: Vec<usize> = (0..cases.len()).collect();
    order.sort_by_key(|i| cases[*i]["log"].as_array().map(|l| l.len()).unwrap_or(0));
    for ci in order {
        let c = &cases[ci];
        let log: Vec<Value> = c["log"].as_array().cloned().unwrap_or_default();
        let oids = w.materialise(&log, init);
        w.set_tips(&log, &oids, log.len());
        let sh = shape(&log);
        let real = match w.evaluate(&oids, log.len(), init) {
            Ok(v) => v,
            Err(e) => {
                failures += 1;
                out.emit(&json!({"ok": false, "kind": "crash", "shape": sh, "detail": e, "case": c}));
                continue;
            }
        };
        let (gate, drift) = compare(c, &real, &log);
        let mut stmt: Vec<String> =
            real["statement"].as_array().unwrap().iter().map(|s| s.as_str().unwrap().to_string()).collect();
        stmt_checks += 1;
        // step clauses on linear extensions (the previous history is a prefix evaluated earlier)
        if let Some(last) = log.last() {
            // (the history without its last change is complete, and its evaluation is the state in
            // which the last change is evaluated, unless that change is in or closes branch X)
            let x_open = log[..log.len() - 1].iter().rev().find(|e| e["step"] != "skip").map(|e| e["step"] == "forkx" || e["step"] == "x").unwrap_or(false);
            if !x_open && last["step"] != "forkx" {
                let prev_key = shape(&log[..log.len() - 1]);
                if !seen.contains_key(&prev_key) {
                    // the predecessor was not among the (sampled) cases: evaluate it now
                    w.set_tips(&log, &oids, log.len() - 1);
                    if let Ok(p) = w.evaluate(&oids, log.len() - 1, init) {
                        seen.insert(prev_key.clone(), p);
                    }
                }
                if let Some(prev) = seen.get(&prev_key) {
                    stmt.extend(step_clauses(prev, &real, last, world));
                    step_checks += 1;
                }
            }
        }
        seen.insert(sh.clone(), real.clone());
        if log.iter().any(|e| e["out"] == "rejected") && log.iter().any(|e| e["step"] == "forky") {
            nontrivial += 1;
        }
        if !gate.is_empty() || !stmt.is_empty() {
            failures += 1;
            out.emit(&json!({"ok": false, "kind": if stmt.is_empty() { "projection" } else { "statement" },
                             "shape": sh, "statement": stmt, "diff": gate, "drift": drift,
                             "expected": {"current": c["current"], "revs": c["revs"], "heads": c["heads"]},
                             "actual": real, "case": c}));
        } else if !drift.is_empty() {
            drifts += 1;
            if drifts <= 5 {
                out.emit(&json!({"ok": true, "kind": "drift", "shape": sh, "drift": drift}));
            }
        }
    }
    json!({"cases": cases.len(), "failures": failures, "drift": drifts, "nontrivial": nontrivial,
           "commits": w.commits, "evaluations": w.evals, "statement_checks": stmt_checks, "step_checks": step_checks})
}

/// C04 clauses 2 and 3 on one linear step prev -> next made by `entry`.
fn step_clauses(prev: &Value, next: &Value, entry: &Value, world: &Value) -> Vec<String> {
    let mut v = Vec::new();
    let strip = |p: &Value| json!({"current": p["current"], "revs": p["revs"], "heads": p["heads"]});
    let author = entry["op"]["author"].as_str().unwrap();
    // delegates of the document that was current before the step
    let cur = prev["current"].as_i64().unwrap();
    let cur_doc = prev["revs"].as_array().unwrap().iter().find(|r| r["id"] == cur).map(|r| r["doc"].as_u64().unwrap_or(0)).unwrap_or(0);
    let is_delegate = cur_doc >= 1
        && world["docs"][cur_doc as usize - 1].as_array().unwrap().iter().any(|k| k == author);
    if !is_delegate && strip(prev) != strip(next) {
        v.push(format!("a change by {author}, not a delegate of the current document, changed the identity"));
    }
    for r in prev["revs"].as_array().unwrap() {
        if r["state"] == "accepted" {
            match next["revs"].as_array().unwrap().iter().find(|n| n["id"] == r["id"]) {
                None => v.push(format!("accepted revision {} disappeared", r["id"])),
                Some(n) => {
                    if n["state"] != "accepted" {
                        v.push(format!("accepted revision {} is now {}", r["id"], n["state"]));
                    } else if n["title"] != r["title"] || n["doc"] != r["doc"] {
                        v.push(format!("accepted revision {} was edited", r["id"]));
                    }
                }
            }
        }
    }
    if next["current"] != prev["current"] {
        let ok = next["revs"].as_array().unwrap().iter().any(|n| n["id"] == next["current"] && n["parent"] == prev["current"]);
        if !ok {
            v.push(format!("current moved from {} to {} which is not its child", prev["current"], next["current"]));
        }
    }
    v
}

// ---------------------------------------------------------------------------------------------
// record: random histories, adaptively generated from the real state

struct Gen {
    rng: fastrand::Rng,
    authors: Vec<String>,
    docs: Vec<Vec<String>>,
}

impl Gen {
    /// Delegates of the current document of the (last observed) real state.
    fn delegates(&self, state: &Value) -> Vec<String> {
        let cur = state["current"].as_i64().unwrap_or(0);
        state["revs"]
            .as_array()
            .and_then(|a| a.iter().find(|r| r["id"] == cur))
            .and_then(|r| r["doc"].as_u64())
            .and_then(|d| self.docs.get(d as usize - 1).cloned())
            .unwrap_or_default()
    }

    fn action(&mut self, state: &Value, upto: usize) -> Value {
        let revs: Vec<&Value> = state["revs"].as_array().map(|a| a.iter().collect()).unwrap_or_default();
        let active: Vec<u64> = revs.iter().filter(|r| r["state"] == "active").map(|r| r["id"].as_u64().unwrap()).collect();
        let any: Vec<u64> = revs.iter().map(|r| r["id"].as_i64().unwrap()).filter(|i| *i >= 0).map(|i| i as u64).collect();
        let cur = state["current"].as_u64().unwrap_or(0);
        let pick_target = |rng: &mut fastrand::Rng| -> u64 {
            let x = rng.u8(0..100);
            if x < 70 && !active.is_empty() {
                active[rng.usize(0..active.len())]
            } else if x < 94 && !any.is_empty() {
                any[rng.usize(0..any.len())]
            } else if x < 97 {
                NOREV
            } else {
                rng.u64(0..=upto as u64) // possibly a change that is not a revision
            }
        };
        let x = self.rng.u32(0..100);
        let propose: u32 = if active.is_empty() { 70 } else { 25 };
        if x < propose {
            let p = match self.rng.u8(0..100) {
                0..=84 => cur,
                85..=94 => pick_target(&mut self.rng),
                95..=97 => NOPARENT,
                _ => NOREV,
            };
            json!({"t": "revision", "rev": p, "doc": self.rng.usize(1..=self.docs.len()), "sig": self.rng.u8(0..100) < 90})
        } else if x < propose + (100 - propose) * 55 / 100 {
            json!({"t": "accept", "rev": pick_target(&mut self.rng), "doc": 0, "sig": self.rng.u8(0..100) < 75})
        } else if x < propose + (100 - propose) * 75 / 100 {
            json!({"t": "reject", "rev": pick_target(&mut self.rng), "doc": 0, "sig": true})
        } else if x < propose + (100 - propose) * 88 / 100 {
            json!({"t": "edit", "rev": pick_target(&mut self.rng), "doc": 0, "sig": true})
        } else {
            json!({"t": "redact", "rev": pick_target(&mut self.rng), "doc": 0, "sig": true})
        }
    }

    fn op(&mut self, state: &Value, upto: usize) -> Value {
        let dels = self.delegates(state);
        // often: a delegate that has not voted yet accepts an active revision (drives adoption)
        if self.rng.u8(0..100) < 45 {
            let active: Vec<&Value> = state["revs"]
                .as_array()
                .map(|a| a.iter().filter(|r| r["state"] == "active").collect())
                .unwrap_or_default();
            if !active.is_empty() {
                let r = active[self.rng.usize(0..active.len())];
                let voted: Vec<&str> = r["accepts"]
                    .as_array()
                    .unwrap()
                    .iter()
                    .chain(r["rejects"].as_array().unwrap().iter())
                    .filter_map(|k| k.as_str())
                    .collect();
                let free: Vec<&String> = dels.iter().filter(|d| !voted.contains(&d.as_str())).collect();
                if !free.is_empty() {
                    let author = free[self.rng.usize(0..free.len())].clone();
                    let sig = self.rng.u8(0..100) < 85;
                    return json!({"author": author, "acts": [{"t": "accept", "rev": r["id"], "doc": 0, "sig": sig}]});
                }
            }
        }
        let author = if !dels.is_empty() && self.rng.u8(0..100) < 85 {
            dels[self.rng.usize(0..dels.len())].clone()
        } else {
            self.authors[self.rng.usize(0..self.authors.len())].clone()
        };
        let n = if self.rng.u8(0..100) < 80 { 1 } else { 2 };
        let mut acts: Vec<Value> = Vec::new();
        for _ in 0..n {
            let a = self.action(state, upto);
            if a["t"] == "revision" && acts.iter().any(|b| b["t"] == "revision") {
                continue;
            }
            acts.push(a);
        }
        json!({"author": author, "acts": acts})
    }
}

fn record(world: &Value, n: usize, maxops: usize, out: &mut Out, dir: &Path) -> Value {
    let mut w = World::new(dir, world);
    let init = world["init"].as_u64().unwrap() as usize;
    let mut g = Gen {
        rng: fastrand::Rng::with_seed(seed()),
        authors: world["authors"].as_array().unwrap().iter().map(|k| k.as_str().unwrap().to_string()).collect(),
        docs: world["docs"]
            .as_array()
            .unwrap()
            .iter()
            .map(|d| d.as_array().unwrap().iter().map(|k| k.as_str().unwrap().to_string()).collect())
            .collect(),
    };
    let mut crashes = 0usize;
    let mut total_ops = 0usize;
    let (mut commits, mut evals) = (0usize, 0usize);
    for h in 0..n {
        // a fresh world now and then keeps the repository small
        if h > 0 && h % 200 == 0 {
            commits += w.commits;
            evals += w.evals;
            w = World::new(dir, world);
        }
        out.emit(&json!({"ev": "reset"}));
        let mut log: Vec<Value> = Vec::new();
        let target_len = g.rng.usize(3..=maxops);
        // state used to guide generation: last real projection
        let oids0 = w.materialise(&log, init);
        w.set_tips(&log, &oids0, 0);
        let mut state = match w.evaluate(&oids0, 0, init) {
            Ok(v) => v,
            Err(e) => fatal(&format!("cannot evaluate the root: {e}")),
        };
        // chain bookkeeping (indices into the history)
        let mut chain_tip = 0usize;
        let mut alive_tip = 0usize;
        let mut phase = "lin";
        let mut fork_pt = 0usize;
        let mut x_alive_tip = 0usize;
        let mut x_left = 0usize;
        let mut y_left = 0usize;
        let mut broken = false;
        let mut skipped = 0usize;
        while log.len() < target_len && !broken && skipped < 1 {
            let i = log.len() + 1;
            if phase == "lin" && chain_tip != alive_tip {
                skipped += 1;
            }
            let op = g.op(&state, log.len());
            let (step, par): (&str, Vec<usize>) = match phase {
                "lin" => {
                    // (no fork below a pruned change: the chain only collects skipped changes)
                    if chain_tip == alive_tip && target_len - log.len() >= 3 && g.rng.u8(0..100) < 25 {
                        phase = "x";
                        fork_pt = alive_tip;
                        chain_tip = alive_tip;
                        x_left = g.rng.usize(0..=1.min(target_len - log.len() - 2));
                        ("forkx", vec![fork_pt])
                    } else {
                        ("lin", vec![chain_tip])
                    }
                }
                "x" => {
                    if x_left > 0 {
                        x_left -= 1;
                        ("x", vec![chain_tip])
                    } else {
                        phase = "y";
                        y_left = g.rng.usize(0..=1);
                        ("forky", vec![fork_pt])
                    }
                }
                _ => {
                    if y_left > 0 {
                        y_left -= 1;
                        ("y", vec![chain_tip])
                    } else {
                        // join on the surviving tips (needs a survivor in Y), else keep extending Y
                        // (the tip of Y must have survived, see Join in Identity.tla)
                        let y_alive = alive_tip != fork_pt && alive_tip == chain_tip;
                        if y_alive {
                            phase = "lin";
                            let mut p = vec![alive_tip];
                            if x_alive_tip != fork_pt {
                                p.push(x_alive_tip);
                            }
                            ("join", p)
                        } else {
                            ("y", vec![chain_tip])
                        }
                    }
                }
            };
            log.push(json!({"op": op, "step": step, "par": par}));
            chain_tip = i;
            total_ops += 1;
            let complete = phase != "x";
            let mut obs = json!({"has": false});
            if complete {
                let oids = w.materialise(&log, init);
                w.set_tips(&log, &oids, log.len());
                match w.evaluate(&oids, log.len(), init) {
                    Ok(v) => {
                        let surv: Vec<usize> = v["survivors"].as_array().unwrap().iter().map(|x| x.as_u64().unwrap() as usize).collect();
                        // alive tips from the real survivors
                        if step == "forky" {
                            // X is complete: its surviving tip
                            x_alive_tip = (fork_pt + 1..i).rev().find(|j| surv.contains(j)).unwrap_or(fork_pt);
                            alive_tip = fork_pt;
                        }
                        if surv.contains(&i) {
                            alive_tip = i;
                        }
                        state = v.clone();
                        obs = v;
                        obs["has"] = json!(true);
                    }
                    Err(e) => {
                        crashes += 1;
                        obs = json!({"has": false, "crash": e});
                        broken = true;
                    }
                }
            }
            out.emit(&json!({"ev": "op", "op": log[i - 1]["op"], "step": step, "par": log[i - 1]["par"], "obs": obs}));
        }
        // a history must not end inside branch X: close it with one change of Y
        if phase == "x" && !broken {
            let i = log.len() + 1;
            let op = g.op(&state, log.len());
            log.push(json!({"op": op, "step": "forky", "par": [fork_pt]}));
            total_ops += 1;
            let oids = w.materialise(&log, init);
            w.set_tips(&log, &oids, log.len());
            let obs = match w.evaluate(&oids, log.len(), init) {
                Ok(mut v) => {
                    v["has"] = json!(true);
                    v
                }
                Err(e) => {
                    crashes += 1;
                    json!({"has": false, "crash": e})
                }
            };
            out.emit(&json!({"ev": "op", "op": log[i - 1]["op"], "step": "forky", "par": log[i - 1]["par"], "obs": obs}));
        }
    }
    json!({"histories": n, "ops": total_ops, "crashes": crashes, "commits": commits + w.commits, "evaluations": evals + w.evals})
}

fn main() {
    let args = Args::parse();
    if std::env::var("VERIF_DEBUG").is_err() {
        quiet_panics();
    }
    let mode = args.req("--mode").to_string();
    let out_path = Path::new(args.req("--out")).to_path_buf();
    let world: Value = serde_json::from_str(args.req("--world")).unwrap_or_else(|e| fatal(&format!("bad --world: {e}")));
    let work = std::env::current_dir().unwrap();
    let mut out = Out::create(&out_path);
    match mode.as_str() {
        "replay" => {
            let cases = read_ndjson(Path::new(args.req("--cases")));
            let s = replay(&world, &cases, &mut out, &work);
            out.emit(&json!({"summary": true, "stats": s}));
        }
        "record" => {
            let n = args.num("--n", 100) as usize;
            let maxops = args.num("--maxops", 8) as usize;
            let s = record(&world, n, maxops, &mut out, &work);
            println!("{}", json!({"summary": true, "stats": s}));
        }
        _ => fatal("unknown mode"),
    }
    out.finish();
}
