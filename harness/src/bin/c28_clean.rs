//! C28 — storage cleanup. Binds spec/Clean.tla to `radicle::storage::git::Storage::clean`
//! (`WriteStorage::clean` → `Repository::clean` / `Repository::remove`).
//!
//! replay: behaviours emitted by TLC ({delegates, init: node -> state, steps: [{op, arg, res, ret,
//!   exists, ns}]}) are materialised in a real `Storage`: a real repository whose identity document
//!   has exactly the delegate set of the case, real namespaces with real references and real signed
//!   refs (`sign_refs`), sigrefs removed / corrupted as the case says, the canonical `refs/rad/id`
//!   re-pointed at a commit without an identity document ("missing") or with a document of version 2
//!   ("unsupported") when the case says the identity document does not load; `clean` / a re-fetch /
//!   a re-pointing of refs/rad/id are run
//!   and after every step the projection of the real repository (per node: absent / unsigned /
//!   signed / corrupt) is compared with the model's.
//!   gating (property C28): after a successful clean that keeps the repository the namespaces of the
//!   local peer and of every delegate are unchanged; the repository disappears only when the local
//!   peer had no sigrefs; no panic. Everything else that differs from the model is drift.
//! record: random configurations over 8 peers with longer random schedules, logged for
//!   spec/TraceClean.tla.
use std::collections::BTreeMap;
use std::path::{Path, PathBuf};

use hwv::*;
use radicle::crypto::test::signer::MockSigner;
use radicle::git::raw as git2;
use radicle::identity::doc::{RawDoc, Visibility};
use radicle::identity::project::Project;
use radicle::identity::{Did, RepoId};
use radicle::node::device::Device;
use radicle::node::Alias;
use radicle::storage::git::{Repository, Storage};
use radicle::storage::refs::SignedRefsAt;
use radicle::storage::{ReadRepository, ReadStorage, RemoteId, SignRepository, WriteRepository, WriteStorage};

fn dev(i: usize) -> Device<MockSigner> {
    Device::mock_from_seed([(i + 1) as u8; 32])
}

struct World {
    _tmp: tempfile::TempDir,
    /// names of the peers; index 0 is the local peer
    nodes: Vec<String>,
    live: Storage,
    templates: Storage,
    /// delegate set (sorted names, joined) -> template repository
    made: BTreeMap<String, RepoId>,
}

fn copy_dir(from: &Path, to: &Path) {
    std::fs::create_dir_all(to).unwrap_or_else(|e| fatal(&format!("mkdir {to:?}: {e}")));
    for e in std::fs::read_dir(from).unwrap_or_else(|e| fatal(&format!("readdir {from:?}: {e}"))) {
        let e = e.unwrap();
        let p = e.path();
        let t = to.join(e.file_name());
        if p.is_dir() {
            copy_dir(&p, &t);
        } else {
            std::fs::copy(&p, &t).unwrap_or_else(|e| fatal(&format!("copy {p:?}: {e}")));
        }
    }
}

impl World {
    fn new(work: &Path, nodes: Vec<String>) -> Self {
        let tmp = tempfile::tempdir_in(work).expect("tempdir");
        let info = radicle::git::UserInfo { alias: Alias::new("local"), key: *dev(0).public_key() };
        let live = Storage::open(tmp.path().join("live"), info.clone()).expect("storage");
        let templates = Storage::open(tmp.path().join("templates"), info).expect("storage");
        World { _tmp: tmp, nodes, live, templates, made: BTreeMap::new() }
    }

    fn idx(&self, name: &str) -> usize {
        self.nodes.iter().position(|n| n == name).unwrap_or_else(|| fatal(&format!("unknown node {name}")))
    }

    fn name_of(&self, id: &RemoteId) -> String {
        (0..self.nodes.len()).find(|i| dev(*i).public_key() == id).map(|i| self.nodes[i].clone()).unwrap_or_else(|| format!("?{id}"))
    }

    fn ns_prefix(&self, i: usize) -> String {
        format!("refs/namespaces/{}/", dev(i).public_key())
    }

    /// Give peer `i` a namespace with a branch and signed refs.
    fn add_namespace(&self, repo: &Repository, i: usize) {
        let raw = repo.raw();
        let commit = raw.refname_to_id("refs/verif/base").expect("base commit");
        raw.reference(&format!("{}refs/heads/master", self.ns_prefix(i)), commit, true, "verif").expect("branch");
        repo.sign_refs(&dev(i)).unwrap_or_else(|e| fatal(&format!("sign_refs: {e}")));
    }

    /// A repository whose identity document names exactly `delegates`, with a signed namespace for
    /// every peer. Built once per delegate set in the template storage.
    fn template(&mut self, delegates: &[String]) -> RepoId {
        let key = delegates.join(",");
        if let Some(r) = self.made.get(&key) {
            return *r;
        }
        let dids: Vec<Did> = delegates.iter().map(|d| Did::from(*dev(self.idx(d)).public_key())).collect();
        let creator = dev(self.idx(&delegates[0]));
        let proj = Project::new(
            "acme".try_into().expect("name"),
            format!("delegates {key}"),
            radicle::git::refname!("master"),
        )
        .unwrap_or_else(|_| fatal("project"));
        let doc = RawDoc::new(proj, dids, 1, Visibility::Public).verified().unwrap_or_else(|e| fatal(&format!("doc: {e}")));
        let (repo, identity) = Repository::init(&doc, &self.templates, &creator).unwrap_or_else(|e| fatal(&format!("init: {e}")));
        repo.set_identity_head_to(identity).expect("identity head");
        {
            let raw = repo.raw();
            let tree = raw.find_tree(raw.treebuilder(None).unwrap().write().unwrap()).unwrap();
            let sig = git2::Signature::new("a", "a@x", &git2::Time::new(1514817556, 0)).unwrap();
            let c = raw.commit(None, &sig, &sig, "base", &tree, &[]).unwrap();
            raw.reference("refs/verif/base", c, true, "verif").unwrap();
        }
        for i in 0..self.nodes.len() {
            self.add_namespace(&repo, i);
        }
        let rid = repo.id;
        self.made.insert(key, rid);
        rid
    }

    /// Re-point the canonical identity reference at a commit whose identity document does not load.
    fn break_id(&self, repo: &Repository, kind: &str) {
        let raw = repo.raw();
        let sig = git2::Signature::new("a", "a@x", &git2::Time::new(1514817556, 0)).unwrap();
        let commit = match kind {
            // a commit that carries no embeds/radicle.json at all
            "missing" => raw.refname_to_id("refs/verif/base").expect("base commit"),
            // a commit that carries the repository's own document, with `"version": 2`
            "unsupported" => {
                let doc = repo.identity_doc().unwrap_or_else(|e| fatal(&format!("identity doc: {e}")));
                let (_, bytes) = doc.doc.encode().expect("encode");
                let mut v: serde_json::Value = serde_json::from_slice(&bytes).expect("json");
                v["version"] = serde_json::json!(2);
                let blob = raw.blob(serde_json::to_string(&v).unwrap().as_bytes()).unwrap();
                let mut embeds = raw.treebuilder(None).unwrap();
                embeds.insert("radicle.json", blob, 0o100_644).unwrap();
                let embeds = embeds.write().unwrap();
                let mut root = raw.treebuilder(None).unwrap();
                root.insert("embeds", embeds, 0o040_000).unwrap();
                let tree = raw.find_tree(root.write().unwrap()).unwrap();
                raw.commit(None, &sig, &sig, "identity document of a future version", &tree, &[]).unwrap()
            }
            k => fatal(&format!("unknown identity state {k}")),
        };
        raw.reference("refs/rad/id", commit, true, "verif").expect("re-point refs/rad/id");
    }

    /// Does the identity document at the canonical refs/rad/id load? "ok" | "missing" | "unsupported"
    fn iddoc(&self, rid: &RepoId) -> String {
        if !self.live_path(rid).exists() {
            return "gone".into();
        }
        let repo = self.live.repository(*rid).unwrap_or_else(|e| fatal(&format!("open: {e}")));
        match repo.identity_doc() {
            Ok(_) => "ok".into(),
            Err(e) if e.to_string().contains("version") => "unsupported".into(),
            Err(_) => "missing".into(),
        }
    }

    fn live_path(&self, rid: &RepoId) -> PathBuf {
        self.live.path().join(rid.canonical())
    }

    /// Put the repository into the live storage with the given namespace states.
    fn setup(&mut self, delegates: &[String], init: &BTreeMap<String, String>, iddoc: &str) -> RepoId {
        let rid = self.template(delegates);
        let path = self.live_path(&rid);
        if path.exists() {
            std::fs::remove_dir_all(&path).expect("rm");
        }
        copy_dir(&self.templates.path().join(rid.canonical()), &path);
        let repo = self.live.repository(rid).unwrap_or_else(|e| fatal(&format!("open: {e}")));
        let raw = repo.raw();
        for (name, st) in init {
            let i = self.idx(name);
            let prefix = self.ns_prefix(i);
            let sigrefs = format!("{prefix}refs/rad/sigrefs");
            match st.as_str() {
                "signed" => {}
                "signed2" => {
                    // a branch called rad/sigrefs: its full name also ends in /rad/sigrefs
                    let master = raw.refname_to_id(&format!("{prefix}refs/heads/master")).expect("master");
                    raw.reference(&format!("{prefix}refs/heads/rad/sigrefs"), master, true, "verif").expect("branch rad/sigrefs");
                }
                "unsigned" => raw.find_reference(&sigrefs).and_then(|mut r| r.delete()).expect("delete sigrefs"),
                "absent" => {
                    let names: Vec<String> = raw
                        .references_glob(&format!("{prefix}*"))
                        .expect("glob")
                        .filter_map(|r| r.ok().and_then(|r| r.name().map(|s| s.to_owned())))
                        .collect();
                    // symbolic references first (rad/id points into the namespace)
                    for pass in [true, false] {
                        for n in &names {
                            if let Ok(mut r) = raw.find_reference(n) {
                                if (r.kind() == Some(git2::ReferenceType::Symbolic)) == pass {
                                    r.delete().expect("delete ref");
                                }
                            }
                        }
                    }
                }
                "corrupt" => {
                    // same signed refs, signature replaced: the branch exists but does not verify
                    let at = raw.refname_to_id(&sigrefs).expect("sigrefs");
                    let old = raw.find_commit(at).unwrap();
                    let mut tb = raw.treebuilder(Some(&old.tree().unwrap())).unwrap();
                    let blob = raw.blob(&[1u8; 64]).unwrap();
                    tb.insert("signature", blob, 0o100_644).unwrap();
                    let tree = raw.find_tree(tb.write().unwrap()).unwrap();
                    let sig = git2::Signature::new("a", "a@x", &git2::Time::new(1514817556, 0)).unwrap();
                    let c = raw.commit(None, &sig, &sig, "corrupt", &tree, &[&old]).unwrap();
                    raw.reference(&sigrefs, c, true, "verif").unwrap();
                }
                s => fatal(&format!("unknown namespace state {s}")),
            }
        }
        if iddoc != "ok" {
            self.break_id(&repo, iddoc);
        }
        rid
    }

    /// Projection of the real repository: (exists, node -> state).
    fn project(&self, rid: &RepoId) -> (bool, BTreeMap<String, String>) {
        let mut m = BTreeMap::new();
        if !self.live_path(rid).exists() {
            for n in &self.nodes {
                m.insert(n.clone(), "absent".to_owned());
            }
            return (false, m);
        }
        let repo = self.live.repository(*rid).unwrap_or_else(|e| fatal(&format!("open: {e}")));
        let raw = repo.raw();
        for (i, n) in self.nodes.iter().enumerate() {
            let prefix = self.ns_prefix(i);
            let any = raw.references_glob(&format!("{prefix}*")).expect("glob").next().is_some();
            let has_sigrefs = raw.find_reference(&format!("{prefix}refs/rad/sigrefs")).is_ok();
            let st = if !any {
                "absent"
            } else if !has_sigrefs {
                "unsigned"
            } else {
                match SignedRefsAt::load(*dev(i).public_key(), &repo) {
                    Ok(Some(_)) if raw.find_reference(&format!("{prefix}refs/heads/rad/sigrefs")).is_ok() => "signed2",
                    Ok(Some(_)) => "signed",
                    Ok(None) => "unsigned",
                    Err(_) => "corrupt",
                }
            };
            m.insert(n.clone(), st.to_owned());
        }
        (true, m)
    }

    /// Run one step; returns (res, ret).
    fn step(&self, rid: &RepoId, op: &str, arg: &str) -> (String, Vec<String>, String) {
        match op {
            "clean" => match guard(|| self.live.clean(*rid)) {
                Ok(Ok(ids)) => {
                    // a peer yielded twice by `remote_ids` is reported twice: the report is taken as a set
                    let mut v: Vec<String> = ids.iter().map(|i| self.name_of(i)).collect();
                    v.sort();
                    v.dedup();
                    ("ok".into(), v, String::new())
                }
                Ok(Err(e)) => ("err".into(), vec![], e.to_string()),
                Err(p) => ("panic".into(), vec![], p),
            },
            "fetch" => {
                let repo = self.live.repository(*rid).unwrap_or_else(|e| fatal(&format!("open: {e}")));
                self.add_namespace(&repo, self.idx(arg));
                ("ok".into(), vec![], String::new())
            }
            "breakid" => {
                let repo = self.live.repository(*rid).unwrap_or_else(|e| fatal(&format!("open: {e}")));
                self.break_id(&repo, arg);
                ("ok".into(), vec![], String::new())
            }
            o => fatal(&format!("unknown op {o}")),
        }
    }
}

fn str_map(v: &Value) -> BTreeMap<String, String> {
    v.as_object().unwrap_or_else(|| fatal("object expected")).iter().map(|(k, v)| (k.clone(), v.as_str().unwrap().to_owned())).collect()
}

fn strs(v: &Value) -> Vec<String> {
    let mut s: Vec<String> = v.as_array().unwrap_or_else(|| fatal("array expected")).iter().map(|x| x.as_str().unwrap().to_owned()).collect();
    s.sort();
    s
}

/// Property C28 on one real clean step. Returns a description of the breach, if any.
fn breach(local: &str, delegates: &[String], pre: &BTreeMap<String, String>, res: &str, exists: bool, post: &BTreeMap<String, String>) -> Option<String> {
    if res == "panic" {
        return Some("clean panicked".into());
    }
    if res != "ok" {
        // an error must not have removed anything either
        if !exists || pre != post {
            return Some("clean returned an error but changed the repository".into());
        }
        return None;
    }
    if exists {
        for (n, st) in pre {
            if (n == local || delegates.contains(n)) && post.get(n) != Some(st) {
                return Some(format!("namespace of {n} ({}) changed from {st} to {}", if n == local { "local" } else { "delegate" }, post[n]));
            }
        }
        None
    } else if matches!(pre[local].as_str(), "signed" | "signed2" | "corrupt") {
        Some(format!("whole repository removed although the local peer has sigrefs ({})", pre[local]))
    } else {
        None
    }
}

/// Replay a chunk of behaviours in a world of its own. Returns failure/drift records and
/// [steps, cleans, cleans removing something, violations, drift].
fn replay_chunk(work: &Path, cases: Vec<(usize, Value)>) -> (Vec<Value>, [u64; 5]) {
    let nodes: Vec<String> = ["L", "d1", "d2", "f", "o"].iter().map(|s| s.to_string()).collect();
    let mut w = World::new(work, nodes);
    let mut recs = Vec::new();
    let (mut steps_n, mut cleans, mut removing, mut bad, mut drift) = (0u64, 0u64, 0u64, 0u64, 0u64);
    for (ci, c) in cases.iter() {
        let delegates = strs(&c["delegates"]);
        let init = str_map(&c["init"]);
        let iddoc0 = c["iddoc"].as_str().unwrap_or("ok");
        let rid = w.setup(&delegates, &init, iddoc0);
        let (e0, p0) = w.project(&rid);
        if !e0 || p0 != init || w.iddoc(&rid) != iddoc0 {
            fatal(&format!("case {ci}: could not materialise {init:?} identity {iddoc0}: got {p0:?} identity {}", w.iddoc(&rid)));
        }
        let mut pre = p0;
        for (si, s) in c["steps"].as_array().unwrap().iter().enumerate() {
            let op = s["op"].as_str().unwrap();
            let arg = s["arg"].as_str().unwrap();
            let (res, ret, detail) = w.step(&rid, op, arg);
            let (exists, post) = w.project(&rid);
            steps_n += 1;
            let mut viol = None;
            if op == "clean" {
                cleans += 1;
                if !exists || post != pre {
                    removing += 1;
                }
                viol = breach("L", &delegates, &pre, &res, exists, &post);
            }
            let idnow = w.iddoc(&rid);
            let same = res == s["res"].as_str().unwrap()
                && ret == strs(&s["ret"])
                && exists == s["exists"].as_bool().unwrap()
                && post == str_map(&s["ns"])
                && (!exists || idnow == s["iddoc"].as_str().unwrap_or("ok"));
            if viol.is_some() {
                bad += 1;
            } else if !same {
                drift += 1;
            }
            if viol.is_some() || (!same && recs.len() < 200) {
                recs.push(json!({"ok": viol.is_none(), "drift": viol.is_none() && !same, "case": ci, "step": si, "delegates": delegates, "init": init, "iddoc": iddoc0, "iddoc_now": idnow,
                    "steps": c["steps"], "breach": viol, "pre": pre, "expected": {"res": s["res"], "ret": s["ret"], "exists": s["exists"], "ns": s["ns"]},
                    "actual": {"res": res, "ret": ret, "exists": exists, "ns": post, "detail": detail}}));
            }
            if viol.is_some() || !same {
                break; // later steps of this behaviour start from a different state
            }
            pre = post;
        }
    }
    (recs, [steps_n, cleans, removing, bad, drift])
}

fn main() {
    let args = Args::parse();
    quiet_panics();
    let mode = args.req("--mode").to_string();
    let work = std::env::current_dir().unwrap();
    let mut o = Out::create(Path::new(args.req("--out")));
    match mode.as_str() {
        "replay" => {
            let cases = read_ndjson(Path::new(args.req("--cases")));
            let nthreads = (args.num("--threads", 4) as usize).max(1);
            let mut chunks: Vec<Vec<(usize, Value)>> = (0..nthreads).map(|_| Vec::new()).collect();
            for (ci, c) in cases.into_iter().enumerate() {
                chunks[ci % nthreads].push((ci, c));
            }
            let ncases: usize = chunks.iter().map(|c| c.len()).sum();
            let handles: Vec<_> = chunks
                .into_iter()
                .map(|chunk| {
                    let work = work.clone();
                    std::thread::spawn(move || replay_chunk(&work, chunk))
                })
                .collect();
            let mut tot = [0u64; 5];
            let mut logged = 0;
            for h in handles {
                let (recs, counts) = h.join().unwrap_or_else(|_| fatal("replay thread panicked"));
                for r in recs {
                    if r["ok"] == false || logged < 50 {
                        if r["ok"] != false {
                            logged += 1;
                        }
                        o.emit(&r);
                    }
                }
                for i in 0..5 {
                    tot[i] += counts[i];
                }
            }
            o.emit(&json!({"summary": true, "behaviours": ncases, "steps": tot[0], "cleans": tot[1], "cleans_removing_something": tot[2],
                "violations": tot[3], "drift": tot[4]}));
        }
        "record" => {
            let n = args.num("--n", 60) as usize;
            let mut rng = fastrand::Rng::with_seed(seed());
            let nodes: Vec<String> = ["L", "d1", "d2", "d3", "f1", "f2", "o1", "o2"].iter().map(|s| s.to_string()).collect();
            let mut w = World::new(&work, nodes.clone());
            for _ in 0..n {
                let mut delegates: Vec<String> = nodes[..4].iter().filter(|_| rng.bool()).cloned().collect();
                if delegates.is_empty() {
                    delegates.push(nodes[rng.usize(0..4)].clone());
                }
                let states = ["absent", "unsigned", "signed", "signed2", "corrupt"];
                let init: BTreeMap<String, String> = nodes
                    .iter()
                    .map(|nm| {
                        let s = if nm == "L" { ["signed", "signed", "signed", "unsigned", "absent", "corrupt"][rng.usize(0..6)] } else { states[rng.usize(0..5)] };
                        (nm.clone(), s.to_owned())
                    })
                    .collect();
                let iddoc0 = ["ok", "ok", "ok", "missing", "unsupported"][rng.usize(0..5)];
                let rid = w.setup(&delegates, &init, iddoc0);
                let (_, p0) = w.project(&rid);
                if p0 != init || w.iddoc(&rid) != iddoc0 {
                    fatal(&format!("could not materialise {init:?} identity {iddoc0}: got {p0:?}"));
                }
                o.emit(&json!({"op": "reset", "arg": "", "delegates": delegates, "res": "ok", "ret": [], "exists": true, "ns": p0, "iddoc": iddoc0}));
                let mut cur = p0;
                for _ in 0..rng.usize(1..=5) {
                    let absent: Vec<&String> = cur.iter().filter(|(_, s)| s.as_str() == "absent").map(|(k, _)| k).collect();
                    let id_ok = w.iddoc(&rid) == "ok";
                    let (op, arg) = if id_ok && !absent.is_empty() && rng.u8(0..3) == 0 {
                        ("fetch", absent[rng.usize(0..absent.len())].clone())
                    } else if id_ok && rng.u8(0..5) == 0 {
                        ("breakid", ["missing", "unsupported"][rng.usize(0..2)].to_owned())
                    } else {
                        ("clean", "L".to_owned())
                    };
                    let (res, ret, _) = w.step(&rid, op, &arg);
                    let (exists, post) = w.project(&rid);
                    let idnow = if exists { w.iddoc(&rid) } else { "ok".to_owned() };
                    o.emit(&json!({"op": op, "arg": arg, "delegates": delegates, "res": res, "ret": ret, "exists": exists, "ns": post, "iddoc": idnow}));
                    if !exists {
                        break;
                    }
                    cur = post;
                }
            }
        }
        _ => fatal("unknown mode"),
    }
    o.finish();
}
