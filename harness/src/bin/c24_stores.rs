//! C24 — node databases. Binds spec/Stores.tla to the real in-memory sqlite `radicle::node::Database`
//! (routing, repo-sync-status, refs cache, address book, gossip store) and
//! `radicle::node::policy::store::Store`.
//!
//! Concretisation: model repositories / nodes 1..n are real RepoIds / NodeIds sorted by their text
//! form (so that the model's order is the order SQL sees); timestamps are milliseconds; heads and
//! oids are fixed object ids; an announcement (kind, repo, val, ts) is a real message of that kind
//! whose content and signature bytes carry `val`.
//!
//! replay: a case is one model state {w, hist, st, succ}: `hist` is replayed on a fresh database
//!   and the tables read back through the store's query methods must equal `st`; then, for every
//!   operation of the instance, the database is rebuilt, the operation applied, and (return value,
//!   tables) must be one of the outcomes the model allows for that operation.  Every read method
//!   of the store is cross-checked against the rows after each such step.
//! record: random long sequences over larger universes; one record per call for TraceStores.tla.
use std::collections::{BTreeMap, BTreeSet};
use std::path::Path;
use std::str::FromStr;

use hwv::*;
use radicle::git::Oid;
use radicle::identity::RepoId;
use radicle::node::address::Store as AddressStore;
use radicle::node::policy::store::{Store as PolicyStore, Write};
use radicle::node::policy::{Policy, Scope, SeedingPolicy};
use radicle::node::refs::Store as RefsStore;
use radicle::node::routing::{InsertResult, Store as RoutingStore};
use radicle::node::seed::Store as SeedStore;
use radicle::node::{Alias, Database, Features, NodeId, Timestamp, UserAgent, PROTOCOL_VERSION};
use radicle_node::bounded::BoundedVec;
use radicle_node::service::filter::Filter;
use radicle_node::service::gossip::{RelayStatus, Store as GossipStore};
use radicle_node::service::message::{
    Announcement, AnnouncementMessage, InventoryAnnouncement, NodeAnnouncement, RefsAnnouncement,
};
use radicle_node::LocalTime;

struct Universe {
    repos: Vec<RepoId>,
    nodes: Vec<NodeId>,
}

impl Universe {
    fn new() -> Self {
        let mut repos: Vec<RepoId> = (1..=8u8)
            .map(|i| RepoId::from(Oid::from_str(&format!("{:02x}{}", i * 17, "5".repeat(38))).unwrap()))
            .collect();
        repos.sort_by_key(|r| r.urn());
        let mut nodes: Vec<NodeId> =
            (1..=8u8).map(|i| *radicle::node::device::Device::mock_from_seed([i; 32]).public_key()).collect();
        nodes.sort_by_key(|n| n.to_string());
        // a filter of one repository must not match another by accident
        let f = Filter::new([repos[0]]);
        if repos[1..].iter().any(|r| f.contains(r)) {
            fatal("bloom filter false positive among the universe's repositories");
        }
        Universe { repos, nodes }
    }
    fn repo(&self, i: i64) -> RepoId {
        self.repos[(i - 1) as usize]
    }
    fn node(&self, i: i64) -> NodeId {
        self.nodes[(i - 1) as usize]
    }
    fn repo_ix(&self, r: &RepoId) -> i64 {
        self.repos.iter().position(|x| x == r).map(|i| i as i64 + 1).unwrap_or(-1)
    }
    fn node_ix(&self, n: &NodeId) -> i64 {
        self.nodes.iter().position(|x| x == n).map(|i| i as i64 + 1).unwrap_or(-1)
    }
}

fn oid(v: i64) -> Oid {
    Oid::from_str(&format!("{:02x}{}", 0xc0 + v, "7".repeat(38))).unwrap()
}
fn oid_ix(o: &Oid) -> i64 {
    (1..=9).find(|v| oid(*v) == *o).unwrap_or(-1)
}
fn refname(i: i64) -> radicle::git::Qualified<'static> {
    match i {
        1 => radicle_git_ext::ref_format::qualified!("refs/heads/master"),
        _ => radicle_git_ext::ref_format::qualified!("refs/rad/sigrefs"),
    }
}
fn ts(t: i64) -> Timestamp {
    Timestamp::try_from(t as u64).unwrap()
}

struct Db {
    db: Database,
    pol: PolicyStore<Write>,
}

/// A table row (integers and strings) with a total order, so that tables are sets.
#[derive(Clone, Debug, PartialEq, Eq)]
struct Row(Vec<Value>);
impl PartialOrd for Row {
    fn partial_cmp(&self, o: &Self) -> Option<std::cmp::Ordering> {
        Some(self.cmp(o))
    }
}
impl Ord for Row {
    fn cmp(&self, o: &Self) -> std::cmp::Ordering {
        let key = |v: &Value| (v.as_i64(), v.as_str().map(|s| s.to_string()), if v.is_i64() || v.is_string() { String::new() } else { v.to_string() });
        self.0.iter().map(key).cmp(o.0.iter().map(key))
    }
}
impl std::ops::Index<usize> for Row {
    type Output = Value;
    fn index(&self, i: usize) -> &Value {
        &self.0[i]
    }
}
impl serde::Serialize for Row {
    fn serialize<S: serde::Serializer>(&self, s: S) -> Result<S::Ok, S::Error> {
        self.0.serialize(s)
    }
}
type Rows = BTreeSet<Row>;

fn ints(v: &Value) -> Vec<i64> {
    v.as_array().unwrap().iter().map(|x| x.as_i64().unwrap()).collect()
}

fn announcement(u: &Universe, n: i64, repo: i64, kind: &str, val: i64, t: i64) -> Announcement {
    let node = u.node(n);
    let timestamp = ts(t);
    let message = match kind {
        "node" => AnnouncementMessage::Node(NodeAnnouncement {
            version: PROTOCOL_VERSION,
            features: Features::SEED,
            timestamp,
            alias: Alias::new(format!("v{val}")),
            addresses: BoundedVec::new(),
            nonce: 0,
            agent: UserAgent::default(),
        }),
        "inventory" => AnnouncementMessage::Inventory(InventoryAnnouncement {
            inventory: BoundedVec::try_from(vec![u.repo(val)]).unwrap(),
            timestamp,
        }),
        "refs" => AnnouncementMessage::Refs(RefsAnnouncement {
            rid: u.repo(repo),
            refs: BoundedVec::try_from(vec![radicle::storage::refs::RefsAt { remote: node, at: oid(val) }]).unwrap(),
            timestamp,
        }),
        _ => fatal("unknown kind"),
    };
    Announcement { node, signature: radicle::crypto::Signature::from([val as u8; 64]), message }
}

/// (kind, repo, val, ts) of a decoded announcement.
fn ann_view(u: &Universe, a: &Announcement) -> (String, i64, i64, i64) {
    let sigval = a.signature.as_ref()[0] as i64;
    match &a.message {
        AnnouncementMessage::Node(m) => {
            let v = m.alias.as_str().trim_start_matches('v').parse::<i64>().unwrap_or(-1);
            ("node".into(), 0, if v == sigval { v } else { -1 }, *m.timestamp as i64)
        }
        AnnouncementMessage::Inventory(m) => {
            let v = m.inventory.first().map(|r| u.repo_ix(r)).unwrap_or(-1);
            ("inventory".into(), 0, if v == sigval { v } else { -1 }, *m.timestamp as i64)
        }
        AnnouncementMessage::Refs(m) => {
            let v = m.refs.first().map(|r| oid_ix(&r.at)).unwrap_or(-1);
            ("refs".into(), u.repo_ix(&m.rid), if v == sigval { v } else { -1 }, *m.timestamp as i64)
        }
    }
}

impl Db {
    fn new() -> Self {
        Db {
            db: Database::memory().unwrap_or_else(|e| fatal(&format!("database: {e}"))),
            pol: PolicyStore::<Write>::memory().unwrap_or_else(|e| fatal(&format!("policy store: {e}"))),
        }
    }

    /// Back to the empty database (same as a fresh one: none of the tables uses AUTOINCREMENT, so
    /// rowids restart at 1).  The policy store has no raw access and is cheap: it is re-created.
    fn reset(&mut self, w: &str) {
        if w == "seeding" || w == "following" {
            self.pol = PolicyStore::<Write>::memory().unwrap_or_else(|e| fatal(&format!("policy store: {e}")));
        } else {
            self.db
                .db
                .execute(
                    "DELETE FROM announcements; DELETE FROM routing; DELETE FROM `repo-sync-status`; DELETE FROM refs; \
                     DELETE FROM addresses; DELETE FROM ips; DELETE FROM nodes;",
                )
                .unwrap_or_else(|e| fatal(&format!("reset: {e}")));
        }
    }

    /// Apply one operation; the return value in the model's encoding.
    fn apply(&mut self, u: &Universe, op: &Value) -> Value {
        let name = op[0].as_str().unwrap();
        let a = |i: usize| op[i].as_i64().unwrap();
        let s = |i: usize| op[i].as_str().unwrap();
        let policy = |p: &str| if p == "allow" { Policy::Allow } else { Policy::Block };
        match name {
            "node_insert" => {
                let r = AddressStore::insert(
                    &mut self.db,
                    &u.node(a(1)),
                    PROTOCOL_VERSION,
                    Features::SEED,
                    &Alias::new("n"),
                    0,
                    &UserAgent::default(),
                    ts(1),
                    [],
                );
                r.map(|b| json!(b)).unwrap_or_else(|e| json!(format!("error: {e}")))
            }
            "node_remove" => AddressStore::remove(&mut self.db, &u.node(a(1))).map(|b| json!(b)).unwrap_or_else(|e| json!(format!("error: {e}"))),
            "add_inventory" => {
                let ids: Vec<RepoId> = ints(&op[1]).iter().map(|i| u.repo(*i)).collect();
                match RoutingStore::add_inventory(&mut self.db, ids.iter(), u.node(a(2)), ts(a(3))) {
                    Ok(v) => json!(v
                        .iter()
                        .map(|(r, res)| {
                            json!([u.repo_ix(r), match res {
                                InsertResult::SeedAdded => "SeedAdded",
                                InsertResult::TimeUpdated => "TimeUpdated",
                                InsertResult::NotUpdated => "NotUpdated",
                            }])
                        })
                        .collect::<Vec<_>>()),
                    Err(_) => json!("err"),
                }
            }
            "remove_inventory" => RoutingStore::remove_inventory(&mut self.db, &u.repo(a(1)), &u.node(a(2)))
                .map(|b| json!(b))
                .unwrap_or_else(|e| json!(format!("error: {e}"))),
            "remove_inventories" => {
                let ids: Vec<RepoId> = ints(&op[1]).iter().map(|i| u.repo(*i)).collect();
                RoutingStore::remove_inventories(&mut self.db, ids.iter(), &u.node(a(2)))
                    .map(|_| json!("ok"))
                    .unwrap_or_else(|e| json!(format!("error: {e}")))
            }
            "prune" => {
                let limit = if a(2) < 0 { None } else { Some(a(2) as usize) };
                RoutingStore::prune(&mut self.db, ts(a(1)), limit, &u.node(a(3)))
                    .map(|n| json!(n))
                    .unwrap_or_else(|e| json!(format!("error: {e}")))
            }
            "synced" => match SeedStore::synced(&mut self.db, &u.repo(a(1)), &u.node(a(2)), oid(a(3)), ts(a(4))) {
                Ok(b) => json!(b),
                Err(_) => json!("err"),
            },
            "refs_set" => RefsStore::set(&mut self.db, &u.repo(a(1)), &u.node(a(2)), &refname(a(3)), oid(a(4)), LocalTime::from_millis(a(5) as u128))
                .map(|b| json!(b))
                .unwrap_or_else(|e| json!(format!("error: {e}"))),
            "refs_delete" => RefsStore::delete(&mut self.db, &u.repo(a(1)), &u.node(a(2)), &refname(a(3)))
                .map(|b| json!(b))
                .unwrap_or_else(|e| json!(format!("error: {e}"))),
            "seed" => {
                let scope = if s(2) == "all" { Scope::All } else { Scope::Followed };
                self.pol.seed(&u.repo(a(1)), scope).map(|b| json!(b)).unwrap_or_else(|e| json!(format!("error: {e}")))
            }
            "set_seed_policy" => self.pol.set_seed_policy(&u.repo(a(1)), policy(s(2))).map(|b| json!(b)).unwrap_or_else(|e| json!(format!("error: {e}"))),
            "unseed" => self.pol.unseed(&u.repo(a(1))).map(|b| json!(b)).unwrap_or_else(|e| json!(format!("error: {e}"))),
            "unblock_rid" => self.pol.unblock_rid(&u.repo(a(1))).map(|b| json!(b)).unwrap_or_else(|e| json!(format!("error: {e}"))),
            "follow" => {
                let alias = if s(2).is_empty() { None } else { Some(Alias::new(s(2))) };
                self.pol.follow(&u.node(a(1)), alias.as_ref()).map(|b| json!(b)).unwrap_or_else(|e| json!(format!("error: {e}")))
            }
            "set_follow_policy" => self.pol.set_follow_policy(&u.node(a(1)), policy(s(2))).map(|b| json!(b)).unwrap_or_else(|e| json!(format!("error: {e}"))),
            "unfollow" => self.pol.unfollow(&u.node(a(1))).map(|b| json!(b)).unwrap_or_else(|e| json!(format!("error: {e}"))),
            "unblock_nid" => self.pol.unblock_nid(&u.node(a(1))).map(|b| json!(b)).unwrap_or_else(|e| json!(format!("error: {e}"))),
            "announced" => {
                let ann = announcement(u, a(1), a(2), s(3), a(4), a(5));
                match GossipStore::announced(&mut self.db, &u.node(a(1)), &ann) {
                    Ok(Some(id)) => json!(id),
                    Ok(None) => json!(0),
                    Err(e) => json!(format!("error: {e}")),
                }
            }
            "set_relay" => {
                let st = match a(2) {
                    -1 => RelayStatus::DontRelay,
                    -2 => RelayStatus::Relay,
                    t => RelayStatus::RelayedAt(ts(t)),
                };
                GossipStore::set_relay(&mut self.db, a(1) as u64, st).map(|_| json!("ok")).unwrap_or_else(|e| json!(format!("error: {e}")))
            }
            "relays" => match GossipStore::relays(&mut self.db, ts(a(1))) {
                Ok(v) => json!(v
                    .iter()
                    .map(|(id, ann)| {
                        let (kind, repo, val, t) = ann_view(u, ann);
                        json!([id, u.node_ix(&ann.node), repo, kind, val, t])
                    })
                    .collect::<Vec<_>>()),
                Err(e) => json!(format!("error: {e}")),
            },
            "gossip_prune" => GossipStore::prune(&mut self.db, ts(a(1))).map(|n| json!(n)).unwrap_or_else(|e| json!(format!("error: {e}"))),
            _ => fatal(&format!("unknown operation {name}")),
        }
    }

    /// Read the tables of store `w` back through the query methods, in the model's projection.
    /// `problems` collects disagreements between different read methods.
    fn dump(&self, u: &Universe, w: &str, nrepos: i64, nnodes: i64, problems: &mut Vec<String>) -> (Vec<i64>, Rows) {
        let mut rows = Rows::new();
        let mut known = Vec::new();
        if w == "routing" || w == "sync" {
            for n in 1..=nnodes {
                match AddressStore::get(&self.db, &u.node(n)) {
                    Ok(Some(_)) => known.push(n),
                    Ok(None) => {}
                    Err(e) => problems.push(format!("address get: {e}")),
                }
            }
        }
        match w {
            "routing" => {
                let entries: Vec<(RepoId, NodeId)> = RoutingStore::entries(&self.db).map(|i| i.collect()).unwrap_or_else(|e| {
                    problems.push(format!("entries: {e}"));
                    vec![]
                });
                if !entries.windows(2).all(|p| p[0].0.urn() <= p[1].0.urn()) {
                    problems.push("entries() not ordered by repo".into());
                }
                for (r, n) in &entries {
                    match RoutingStore::entry(&self.db, r, n) {
                        Ok(Some(t)) => {
                            rows.insert(Row(vec![json!(u.repo_ix(r)), json!(u.node_ix(n)), json!(*t as i64)]));
                        }
                        other => problems.push(format!("entry() of a listed route: {other:?}")),
                    }
                }
                if rows.len() != entries.len() {
                    problems.push("entries() lists a route twice".into());
                }
                if RoutingStore::len(&self.db).ok() != Some(rows.len()) {
                    problems.push("len() disagrees with entries()".into());
                }
                if RoutingStore::is_empty(&self.db).ok() != Some(rows.is_empty()) {
                    problems.push("is_empty() disagrees with entries()".into());
                }
                for r in 1..=nrepos {
                    let want: BTreeSet<i64> = rows.iter().filter(|x| x[0] == json!(r)).map(|x| x[1].as_i64().unwrap()).collect();
                    let got: BTreeSet<i64> = RoutingStore::get(&self.db, &u.repo(r)).map(|s| s.iter().map(|n| u.node_ix(n)).collect()).unwrap_or_default();
                    if want != got {
                        problems.push(format!("get(repo {r}) = {got:?}, rows say {want:?}"));
                    }
                    if RoutingStore::count(&self.db, &u.repo(r)).ok() != Some(want.len()) {
                        problems.push(format!("count(repo {r}) disagrees"));
                    }
                    for n in 1..=nnodes {
                        let e = RoutingStore::entry(&self.db, &u.repo(r), &u.node(n)).ok().flatten().map(|t| *t as i64);
                        let w_ = rows.iter().find(|x| x[0] == json!(r) && x[1] == json!(n)).map(|x| x[2].as_i64().unwrap());
                        if e != w_ {
                            problems.push(format!("entry({r},{n}) = {e:?}, rows say {w_:?}"));
                        }
                    }
                }
                for n in 1..=nnodes {
                    let want: BTreeSet<i64> = rows.iter().filter(|x| x[1] == json!(n)).map(|x| x[0].as_i64().unwrap()).collect();
                    let got: BTreeSet<i64> = RoutingStore::get_inventory(&self.db, &u.node(n)).map(|s| s.iter().map(|r| u.repo_ix(r)).collect()).unwrap_or_default();
                    if want != got {
                        problems.push(format!("get_inventory(node {n}) = {got:?}, rows say {want:?}"));
                    }
                }
            }
            "sync" => {
                for r in 1..=nrepos {
                    match SeedStore::seeds_for(&self.db, &u.repo(r)) {
                        Ok(it) => {
                            for s in it {
                                match s {
                                    Ok(s) => {
                                        rows.insert(Row(vec![json!(r), json!(u.node_ix(&s.nid)), json!(oid_ix(&s.synced_at.oid)), json!(s.synced_at.timestamp.as_millis() as i64)]));
                                    }
                                    Err(e) => problems.push(format!("seeds_for row: {e}")),
                                }
                            }
                        }
                        Err(e) => problems.push(format!("seeds_for: {e}")),
                    }
                }
                let mut other = Rows::new();
                for n in 1..=nnodes {
                    if let Ok(it) = SeedStore::seeded_by(&self.db, &u.node(n)) {
                        for s in it.flatten() {
                            other.insert(Row(vec![json!(u.repo_ix(&s.0)), json!(n), json!(oid_ix(&s.1.oid)), json!(s.1.timestamp.as_millis() as i64)]));
                        }
                    }
                }
                if other != rows {
                    problems.push("seeded_by() disagrees with seeds_for()".into());
                }
            }
            "refs" => {
                for r in 1..=nrepos {
                    for n in 1..=nnodes {
                        for f in 1..=2 {
                            match RefsStore::get(&self.db, &u.repo(r), &u.node(n), &refname(f)) {
                                Ok(Some((o, t))) => {
                                    rows.insert(Row(vec![json!(r), json!(n), json!(f), json!(oid_ix(&o)), json!(t.as_millis() as i64)]));
                                }
                                Ok(None) => {}
                                Err(e) => problems.push(format!("refs get: {e}")),
                            }
                        }
                    }
                }
                if RefsStore::count(&self.db).ok() != Some(rows.len()) {
                    problems.push("refs count() disagrees with get()".into());
                }
            }
            "seeding" => {
                match self.pol.seed_policies() {
                    Ok(it) => {
                        for p in it {
                            let (scope, pol) = match p.policy {
                                SeedingPolicy::Allow { scope } => (if scope == Scope::All { "all" } else { "followed" }, "allow"),
                                SeedingPolicy::Block => ("-", "block"),
                            };
                            if !rows.insert(Row(vec![json!(u.repo_ix(&p.rid)), json!(scope), json!(pol)])) {
                                problems.push("seed_policies() lists a repository twice".into());
                            }
                        }
                    }
                    Err(e) => problems.push(format!("seed_policies: {e}")),
                }
                for r in 1..=nrepos {
                    let one = self.pol.seed_policy(&u.repo(r)).ok().flatten().map(|p| match p.policy {
                        SeedingPolicy::Allow { scope } => (if scope == Scope::All { "all" } else { "followed" }, "allow"),
                        SeedingPolicy::Block => ("-", "block"),
                    });
                    let w_ = rows.iter().find(|x| x[0] == json!(r)).map(|x| (x[1].as_str().unwrap().to_string(), x[2].as_str().unwrap().to_string()));
                    if one.map(|(a, b)| (a.to_string(), b.to_string())) != w_ {
                        problems.push(format!("seed_policy({r}) disagrees with seed_policies()"));
                    }
                    let seeding = self.pol.is_seeding(&u.repo(r)).unwrap_or(false);
                    if seeding != rows.iter().any(|x| x[0] == json!(r) && x[2] == json!("allow")) {
                        problems.push(format!("is_seeding({r}) disagrees with the policy"));
                    }
                }
            }
            "following" => {
                match self.pol.follow_policies() {
                    Ok(it) => {
                        for p in it {
                            let alias = p.alias.map(|a| a.to_string()).unwrap_or_default();
                            let pol = if p.policy == Policy::Allow { "allow" } else { "block" };
                            if !rows.insert(Row(vec![json!(u.node_ix(&p.nid)), json!(alias), json!(pol)])) {
                                problems.push("follow_policies() lists a node twice".into());
                            }
                        }
                    }
                    Err(e) => problems.push(format!("follow_policies: {e}")),
                }
                for n in 1..=nnodes {
                    let one = self.pol.follow_policy(&u.node(n)).ok().flatten().map(|p| {
                        (p.alias.map(|a| a.to_string()).unwrap_or_default(), if p.policy == Policy::Allow { "allow" } else { "block" }.to_string())
                    });
                    let w_ = rows.iter().find(|x| x[0] == json!(n)).map(|x| (x[1].as_str().unwrap().to_string(), x[2].as_str().unwrap().to_string()));
                    if one != w_ {
                        problems.push(format!("follow_policy({n}) disagrees with follow_policies()"));
                    }
                    let following = self.pol.is_following(&u.node(n)).unwrap_or(false);
                    if following != rows.iter().any(|x| x[0] == json!(n) && x[2] == json!("allow")) {
                        problems.push(format!("is_following({n}) disagrees with the policy"));
                    }
                }
            }
            "gossip" => {
                // rowid and relay status are only visible in the table itself
                let mut raw: BTreeMap<(i64, String, i64), (i64, i64, i64)> = BTreeMap::new(); // (node, kind, ts) -> (rowid, relay, sigval)
                let stmt = self
                    .db
                    .db
                    .prepare("SELECT rowid, node, repo, type, signature, timestamp, relay FROM announcements")
                    .unwrap_or_else(|e| fatal(&format!("dump: {e}")));
                let mut keyed: Vec<(i64, i64, String, String, i64, i64, i64)> = Vec::new();
                for row in stmt.into_iter() {
                    let row = row.unwrap_or_else(|e| fatal(&format!("dump row: {e}")));
                    let id = row.read::<i64, _>("rowid");
                    let node = row.read::<NodeId, _>("node");
                    let repo = row.read::<&str, _>("repo").to_string();
                    let kind = row.read::<&str, _>("type").to_string();
                    let sig = row.read::<&[u8], _>("signature")[0] as i64;
                    let t = row.read::<i64, _>("timestamp");
                    let relay = row.try_read::<Option<i64>, _>("relay").unwrap_or(Some(-99)).unwrap_or(-2);
                    keyed.push((id, u.node_ix(&node), repo, kind, sig, t, relay));
                }
                for (id, n, repo, kind, sig, t, relay) in &keyed {
                    let r = if repo.is_empty() { 0 } else { RepoId::from_urn(repo).map(|r| u.repo_ix(&r)).unwrap_or(-1) };
                    rows.insert(Row(vec![json!(id), json!(n), json!(r), json!(kind), json!(sig), json!(t), json!(relay)]));
                    raw.insert((*n, kind.clone(), *t), (*id, *relay, *sig));
                }
                // the read API: everything, ordered by (timestamp, node, type), decodable, and `last`
                match GossipStore::filtered(&self.db, &Filter::default(), Timestamp::MIN, Timestamp::MAX) {
                    Ok(it) => {
                        let all: Vec<Announcement> = it.filter_map(|a| a.map_err(|e| problems.push(format!("filtered row: {e}"))).ok()).collect();
                        let keys: Vec<(i64, String, &'static str)> = all
                            .iter()
                            .map(|a| {
                                let (kind, _, _, t) = ann_view(u, a);
                                (t, a.node.to_string(), if kind == "node" { "node" } else if kind == "refs" { "refs" } else { "inventory" })
                            })
                            .collect();
                        // refs announcements of one node for different repositories tie in the ORDER BY
                        if !keys.windows(2).all(|p| p[0] <= p[1]) {
                            problems.push("filtered() not ordered by (timestamp, node, type)".into());
                        }
                        let mut seen = Rows::new();
                        for a in &all {
                            let (kind, repo, val, t) = ann_view(u, a);
                            seen.insert(Row(vec![json!(u.node_ix(&a.node)), json!(repo), json!(kind), json!(val), json!(t)]));
                        }
                        let want: Rows = rows.iter().map(|x| Row(vec![x[1].clone(), x[2].clone(), x[3].clone(), x[4].clone(), x[5].clone()])).collect();
                        if seen != want || all.len() != rows.len() {
                            problems.push(format!("filtered(all) = {seen:?}, table says {want:?}"));
                        }
                    }
                    Err(e) => problems.push(format!("filtered: {e}")),
                }
                // a filter for repository 1 keeps node/inventory announcements and refs of repository 1
                if let Ok(it) = GossipStore::filtered(&self.db, &Filter::new([u.repo(1)]), Timestamp::MIN, Timestamp::MAX) {
                    let n = it.filter(|a| a.is_ok()).count();
                    let want = rows.iter().filter(|x| x[3] != json!("refs") || x[2] == json!(1)).count();
                    if n != want {
                        problems.push(format!("filtered(repo 1) returns {n} announcements, table says {want}"));
                    }
                }
                // half-open time window [2, 3)
                if let Ok(it) = GossipStore::filtered(&self.db, &Filter::default(), ts(2), ts(3)) {
                    let n = it.filter(|a| a.is_ok()).count();
                    let want = rows.iter().filter(|x| x[5] == json!(2)).count();
                    if n != want {
                        problems.push(format!("filtered([2,3)) returns {n} announcements, table says {want}"));
                    }
                }
                let last = GossipStore::last(&self.db).ok().flatten().map(|t| *t as i64);
                let want = rows.iter().map(|x| x[5].as_i64().unwrap()).max();
                if last != want {
                    problems.push(format!("last() = {last:?}, table says {want:?}"));
                }
            }
            _ => fatal("unknown store"),
        }
        (known, rows)
    }
}

fn model_rows(st: &Value) -> (Vec<i64>, Rows) {
    let mut nodes = ints(&st["nodes"]);
    nodes.sort();
    let rows = st["rows"].as_array().unwrap().iter().map(|r| Row(r.as_array().unwrap().clone())).collect();
    (nodes, rows)
}

fn dump_json(d: &(Vec<i64>, Rows)) -> Value {
    json!({"nodes": d.0, "rows": d.1.iter().collect::<Vec<_>>()})
}

fn main() {
    let args = Args::parse();
    if std::env::var("HWV_LOUD").is_err() {
        quiet_panics();
    }
    let mode = args.req("--mode").to_string();
    let out = Path::new(args.req("--out")).to_path_buf();
    match mode.as_str() {
        "replay" => {
            let cases = read_ndjson(Path::new(args.req("--cases")));
            let nrepos = args.num("--repos", 2) as i64;
            let nnodes = args.num("--nodes", 3) as i64;
            let nprocs = args.num("--procs", 1) as usize;
            if nprocs > 1 {
                // SQLite's allocator statistics take a process-wide mutex, so threads do not scale:
                // split the cases over child processes and merge their verdicts.
                let exe = std::env::current_exe().unwrap_or_else(|e| fatal(&format!("current_exe: {e}")));
                let mut files = Vec::new();
                for k in 0..nprocs {
                    let cf = out.with_extension(format!("part{k}.cases"));
                    let of = out.with_extension(format!("part{k}.out"));
                    let mut w = Out::create(&cf);
                    for c in cases.iter().skip(k).step_by(nprocs) {
                        w.emit(c);
                    }
                    w.finish();
                    files.push((cf, of));
                }
                let children: Vec<_> = files
                    .iter()
                    .map(|(cf, of)| {
                        std::process::Command::new(&exe)
                            .args(["--mode", "replay", "--cases"])
                            .arg(cf)
                            .arg("--out")
                            .arg(of)
                            .args(["--repos", &nrepos.to_string(), "--nodes", &nnodes.to_string(), "--procs", "1"])
                            .spawn()
                            .unwrap_or_else(|e| fatal(&format!("spawn: {e}")))
                    })
                    .collect();
                for mut ch in children {
                    let st = ch.wait().unwrap_or_else(|e| fatal(&format!("wait: {e}")));
                    if !st.success() {
                        fatal(&format!("replay child failed: {st}"));
                    }
                }
                let mut o = Out::create(&out);
                let mut sum: BTreeMap<String, u64> = BTreeMap::new();
                for (cf, of) in &files {
                    for r in read_ndjson(of) {
                        if r["summary"] == Value::Bool(true) {
                            for (k, v) in r.as_object().unwrap() {
                                if let Some(n) = v.as_u64() {
                                    *sum.entry(k.clone()).or_default() += n;
                                }
                            }
                        } else {
                            o.emit(&r);
                        }
                    }
                    let _ = std::fs::remove_file(cf);
                    let _ = std::fs::remove_file(of);
                }
                let mut s = serde_json::Map::new();
                s.insert("summary".into(), json!(true));
                for (k, v) in sum {
                    s.insert(k, json!(v));
                }
                o.emit(&Value::Object(s));
                o.finish();
                return;
            }
            let nthreads = 1usize;
            let total = cases.len();
            let mut chunks: Vec<Vec<Value>> = (0..nthreads).map(|_| Vec::new()).collect();
            for (i, c) in cases.into_iter().enumerate() {
                chunks[i % nthreads].push(c);
            }
            let handles: Vec<_> = chunks
                .into_iter()
                .map(|chunk| {
                    std::thread::spawn(move || {
                        let u = Universe::new();
                        let mut recs: Vec<Value> = Vec::new();
                        // edges checked, states reached, states skipped (legitimate divergence), calls, edges with >1 allowed outcome
                        let mut stats = [0u64; 5];
                        let mut db = Db::new();
                        for c in chunk {
                            let w = c["w"].as_str().unwrap().to_string();
                            let hist = c["hist"].as_array().unwrap().clone();
                            let want = model_rows(&c["st"]);
                            // group the allowed outcomes by operation
                            let mut groups: BTreeMap<String, Vec<&Value>> = BTreeMap::new();
                            for e in c["succ"].as_array().unwrap() {
                                groups.entry(e["op"].to_string()).or_default().push(e);
                            }
                            if groups.is_empty() {
                                // no operation to try: just show / compare the tables after the history
                                db = Db::new();
                                for h in &hist {
                                    db.apply(&u, h);
                                }
                                let mut problems = Vec::new();
                                let b = db.dump(&u, &w, nrepos, nnodes, &mut problems);
                                if b != want {
                                    recs.push(json!({"ok": false, "what": "state", "w": w, "hist": hist, "op": Value::Null,
                                        "expected": [{"st": dump_json(&want)}], "actual": {"st": dump_json(&b)}, "problems": problems}));
                                }
                            }
                            let mut first = true;
                            let mut skip = false;
                            for (k, (_, outs)) in groups.into_iter().enumerate() {
                                let op = &outs[0]["op"];
                                // a fresh database now and then, a cleared one otherwise
                                if k % 16 == 0 {
                                    db = Db::new();
                                } else {
                                    db.reset(&w);
                                }
                                let res = guard(|| {
                                    for h in &hist {
                                        db.apply(&u, h);
                                    }
                                    let mut problems = Vec::new();
                                    let before = if first { Some(db.dump(&u, &w, nrepos, nnodes, &mut problems)) } else { None };
                                    let ret = db.apply(&u, op);
                                    let after = db.dump(&u, &w, nrepos, nnodes, &mut problems);
                                    (before, ret, after, problems)
                                });
                                stats[3] += hist.len() as u64 + 1;
                                let (before, ret, after, problems) = match res {
                                    Ok(x) => x,
                                    Err(p) => {
                                        recs.push(json!({"ok": false, "what": "panic", "w": w, "hist": hist, "op": op, "detail": p}));
                                        continue;
                                    }
                                };
                                if let Some(b) = before {
                                    first = false;
                                    if b != want {
                                        // only `prune` with a limit has more than one outcome: another branch of the model
                                        // describes the path the database took
                                        let nondet = hist.iter().any(|h| h[0] == "prune" && h[2].as_i64().unwrap() >= 0);
                                        if nondet {
                                            stats[2] += 1;
                                        } else {
                                            recs.push(json!({"ok": false, "what": "state", "w": w, "hist": hist, "op": Value::Null,
                                                "expected": [{"st": dump_json(&want)}], "actual": {"st": dump_json(&b)}}));
                                        }
                                        skip = true;
                                        break;
                                    }
                                    stats[1] += 1;
                                }
                                stats[0] += 1;
                                if outs.len() > 1 {
                                    stats[4] += 1;
                                }
                                let matched = outs.iter().any(|e| e["ret"] == ret && model_rows(&e["st"]) == after);
                                if !matched || !problems.is_empty() {
                                    recs.push(json!({"ok": false, "what": if matched { "queries" } else { "step" }, "w": w, "hist": hist, "op": op,
                                        "expected": outs.iter().map(|e| json!({"ret": e["ret"], "st": e["st"]})).collect::<Vec<_>>(),
                                        "actual": {"ret": ret, "st": dump_json(&after)}, "problems": problems}));
                                }
                            }
                            let _ = skip;
                        }
                        (recs, stats)
                    })
                })
                .collect();
            let mut o = Out::create(&out);
            let mut stats = [0u64; 5];
            for h in handles {
                let (recs, s) = h.join().unwrap_or_else(|_| fatal("worker thread panicked"));
                for r in recs {
                    o.emit(&r);
                }
                for i in 0..5 {
                    stats[i] += s[i];
                }
            }
            o.emit(&json!({"summary": true, "cases": total, "edges": stats[0], "states_reached": stats[1], "states_on_other_branch": stats[2],
                "calls": stats[3], "edges_with_several_allowed_outcomes": stats[4]}));
            o.finish();
        }
        "record" => {
            let n = args.num("--n", 100);
            let len = args.num("--len", 40);
            let nrepos = args.num("--repos", 4) as i64;
            let nnodes = args.num("--nodes", 5) as i64;
            let maxts = args.num("--ts", 9) as i64;
            let mut rng = fastrand::Rng::with_seed(seed());
            let u = Universe::new();
            let mut o = Out::create(&out);
            let stores = ["routing", "sync", "refs", "seeding", "following", "gossip"];
            for run in 0..n as usize {
                let w = stores[run % stores.len()];
                let mut db = Db::new();
                o.emit(&json!({"w": w, "op": ["reset"], "ret": 0, "st": {"nodes": [], "rows": []}, "problems": []}));
                for _ in 0..len {
                    let r = |rng: &mut fastrand::Rng| rng.i64(1..=nrepos);
                    let nd = |rng: &mut fastrand::Rng| rng.i64(1..=nnodes);
                    let t = |rng: &mut fastrand::Rng| rng.i64(0..=maxts);
                    let ids = |rng: &mut fastrand::Rng| -> Vec<i64> { (0..rng.usize(0..=3)).map(|_| rng.i64(1..=nrepos)).collect() };
                    let op: Value = match w {
                        "routing" => match rng.u8(0..12) {
                            0 | 1 => json!(["node_insert", nd(&mut rng)]),
                            2 => json!(["node_remove", nd(&mut rng)]),
                            3..=6 => json!(["add_inventory", ids(&mut rng), nd(&mut rng), t(&mut rng)]),
                            7 => json!(["remove_inventory", r(&mut rng), nd(&mut rng)]),
                            8 => json!(["remove_inventories", ids(&mut rng), nd(&mut rng)]),
                            _ => json!(["prune", t(&mut rng) + 1, ([-1, 0, 1, 2, 3, 5][rng.usize(0..6)]), nd(&mut rng)]),
                        },
                        "sync" => match rng.u8(0..10) {
                            0 | 1 => json!(["node_insert", nd(&mut rng)]),
                            2 => json!(["node_remove", nd(&mut rng)]),
                            _ => json!(["synced", r(&mut rng), nd(&mut rng), rng.i64(1..=3), t(&mut rng)]),
                        },
                        "refs" => match rng.u8(0..6) {
                            0 => json!(["refs_delete", r(&mut rng), nd(&mut rng), rng.i64(1..=2)]),
                            _ => json!(["refs_set", r(&mut rng), nd(&mut rng), rng.i64(1..=2), rng.i64(1..=3), t(&mut rng)]),
                        },
                        "seeding" => match rng.u8(0..6) {
                            0 | 1 => json!(["seed", r(&mut rng), (["followed", "all"][rng.usize(0..2)])]),
                            2 | 3 => json!(["set_seed_policy", r(&mut rng), (["allow", "block"][rng.usize(0..2)])]),
                            4 => json!(["unseed", r(&mut rng)]),
                            _ => json!(["unblock_rid", r(&mut rng)]),
                        },
                        "following" => match rng.u8(0..6) {
                            0 | 1 => json!(["follow", nd(&mut rng), (["", "a", "b"][rng.usize(0..3)])]),
                            2 | 3 => json!(["set_follow_policy", nd(&mut rng), (["allow", "block"][rng.usize(0..2)])]),
                            4 => json!(["unfollow", nd(&mut rng)]),
                            _ => json!(["unblock_nid", nd(&mut rng)]),
                        },
                        _ => match rng.u8(0..10) {
                            0..=5 => {
                                let kind = ["node", "inventory", "refs"][rng.usize(0..3)];
                                let repo = if kind == "refs" { r(&mut rng) } else { 0 };
                                json!(["announced", nd(&mut rng), repo, kind, rng.i64(1..=3), t(&mut rng) + 1])
                            }
                            6 | 7 => json!(["set_relay", rng.i64(1..=6), ([-1, -2, -2, 4][rng.usize(0..4)])]),
                            8 => json!(["relays", t(&mut rng)]),
                            _ => json!(["gossip_prune", t(&mut rng) + 1]),
                        },
                    };
                    let mut problems = Vec::new();
                    let res = guard(|| {
                        let ret = db.apply(&u, &op);
                        let d = db.dump(&u, w, nrepos, nnodes, &mut problems);
                        (ret, d)
                    });
                    match res {
                        Ok((ret, d)) => o.emit(&json!({"w": w, "op": op, "ret": ret, "st": dump_json(&d), "problems": problems})),
                        Err(p) => o.emit(&json!({"w": w, "op": op, "ret": format!("panic: {p}"), "st": {"nodes": [], "rows": []}, "problems": [p]})),
                    }
                }
            }
            o.finish();
        }
        _ => fatal("unknown mode"),
    }
}
