//! C15 — binds spec/WireMsg.tla to the real message codec
//! (`radicle_node::wire::{serialize, deserialize}`, `wire/message.rs`, `service/message.rs`,
//! `Announcement::verify`; the framed path goes through `Frame::decode` via the `wire::verif` hook).
//!
//! modes
//!   limits  --out F        the protocol limits as the code has them (for the TLC constants)
//!   replay  --cases F --out G
//!           part "size": each boundary message of the assembly machine is built with the real
//!             types (real keys, signatures, object ids, addresses), its real encoded length is
//!             compared with the model's Size, it must fit the frame, decode to an equal message and
//!             re-encode to the same bytes (also through a gossip frame);
//!           part "enc":  each candidate encoding (variant per field / cut / trailing bytes) is
//!             materialised as bytes (announcements signed over the bytes as sent), decoded with
//!             `wire::deserialize::<Message>` and as a gossip frame payload; the outcome (ok / error
//!             kind) must be the model's, accepted bytes must re-encode identically unless the model
//!             says otherwise (node announcement without user agent), and the signature must verify
//!             on every accepted canonical announcement.
//!   random  --n N --out G
//!           (a) ordinary round-trip testing decode(encode(m)) = m on random messages (labelled so);
//!           (b) mutated / random byte strings: whatever decodes must re-encode to the same bytes
//!               (same exception).
#[path = "../wiregen.rs"]
mod wiregen;

use std::path::Path;
use std::str::FromStr;

use cyphernet::addr::{HostName, NetAddr};
use cyphernet::EcPk as _;
use hwv::*;
use qcheck::Arbitrary;
use radicle::crypto::{PublicKey, Signature};
use radicle::git::Oid;
use radicle::identity::RepoId;
use radicle::node::device::Device;
use radicle::node::{Address, Alias, Timestamp, UserAgent};
use radicle::storage::refs::RefsAt;
use radicle_crypto::test::signer::MockSigner;
use radicle_node::bounded::BoundedVec;
use radicle_node::deserializer::Deserializer;
use radicle_node::service::filter::{Filter, FILTER_SIZES};
use radicle_node::service::message::*;
use radicle_node::wire;
use radicle_node::wire::verif::{Frame, FrameData, MAX_INBOX_SIZE};
use radicle_node::Link;
use wiregen::*;

fn signer() -> Device<MockSigner> {
    Device::mock_from_seed([7; 32])
}

fn oid(rng: &mut fastrand::Rng) -> Oid {
    let b: Vec<u8> = rand_bytes(rng, 20);
    Oid::try_from(b.as_slice()).expect("20 bytes")
}

fn timestamp(ms: u64) -> Timestamp {
    Timestamp::try_from(ms).expect("timestamp in range")
}

fn onion() -> HostName {
    let pk = *signer().public_key();
    let addr = cyphernet::addr::tor::OnionAddrV3::from(cyphernet::ed25519::PublicKey::from_pk_compressed(**pk).expect("valid key"));
    HostName::Tor(addr)
}

fn address(kind: &str, host: usize, rng: &mut fastrand::Rng) -> Address {
    let host = match kind {
        "ipv4" => HostName::Ip(std::net::IpAddr::V4(std::net::Ipv4Addr::from(rng.u32(..)))),
        // IPv6 addresses include the forms that have an IPv4 reading (mapped, compatible) and loopback:
        // decoding must keep them as the 16 octets that were sent
        "ipv6" => HostName::Ip(std::net::IpAddr::V6(match rng.u8(0..6) {
            0 | 1 => std::net::Ipv6Addr::from((0xffffu128 << 32) | rng.u32(..) as u128),
            2 => std::net::Ipv6Addr::from(rng.u32(1..) as u128),
            3 => std::net::Ipv6Addr::LOCALHOST,
            _ => std::net::Ipv6Addr::from(rng.u128(..)),
        })),
        "dns" => HostName::Dns("aB".repeat(host).chars().take(host).collect()),
        "onion" => onion(),
        other => fatal(&format!("address kind {other}")),
    };
    Address::from(NetAddr { host, port: rng.u16(..) })
}

fn agent_of_len(n: usize) -> UserAgent {
    assert!(n >= 3);
    UserAgent::from_str(&format!("/{}/", "a".repeat(n - 2))).unwrap_or_else(|e| fatal(&format!("user agent of {n} bytes refused: {e}")))
}

fn error_kind(e: &wire::Error) -> String {
    use wire::Error::*;
    match e {
        Io(err) if err.kind() == std::io::ErrorKind::UnexpectedEof => "Eof",
        Io(_) => "InvalidData",
        FromUtf8(_) => "FromUtf8",
        InvalidSize { .. } => "InvalidSize",
        InvalidFilterSize(_) => "InvalidFilterSize",
        InvalidStreamKind(_) => "InvalidStreamKind",
        InvalidRefName(_) => "InvalidRefName",
        InvalidAlias(_) => "InvalidAlias",
        InvalidUserAgent(_) => "InvalidUserAgent",
        InvalidControlMessage(_) => "InvalidControlMessage",
        InvalidProtocolVersion(_) => "InvalidProtocolVersion",
        InvalidOnionAddr(_) => "InvalidOnionAddr",
        InvalidTimestamp(_) => "InvalidTimestamp",
        WrongProtocolVersion(_) => "WrongProtocolVersion",
        UnknownAddressType(_) => "UnknownAddressType",
        UnknownMessageType(_) => "UnknownMessageType",
        UnknownInfoType(_) => "UnknownInfoType",
        UnexpectedBytes => "UnexpectedBytes",
    }
    .to_string()
}

/// Decode `payload` as the payload of one gossip frame through the real frame decoder.
fn framed_decode(payload: &[u8]) -> Result<Option<Message>, wire::Error> {
    let mut bytes = b"rad\x01".to_vec();
    bytes.push(0b010);
    bytes.extend(varint(payload.len() as u64, if payload.len() < 64 { 1 } else if payload.len() < 16384 { 2 } else { 4 }));
    bytes.extend(payload);
    let mut de = Deserializer::<MAX_INBOX_SIZE, Frame>::default();
    de.input(&bytes).map_err(|_| wire::Error::UnexpectedBytes)?;
    match de.deserialize_next()? {
        Some(Frame { data: FrameData::Gossip(m), .. }) => Ok(Some(m)),
        Some(_) => Err(wire::Error::InvalidStreamKind(9)),
        None => Ok(None),
    }
}

// ------------------------------------------------------------------------------------------------
// part "size"

fn build_sized(m: &Value, rng: &mut fastrand::Rng) -> Message {
    let n = |k: &str| m[k].as_u64().unwrap_or_else(|| fatal(&format!("size case field {k}"))) as usize;
    let s = signer();
    match m["type"].as_str().unwrap() {
        "node" => {
            let addrs: Vec<Address> = m["addrs"].as_array().unwrap().iter()
                .map(|a| address(a[0].as_str().unwrap(), a[1].as_u64().unwrap() as usize, rng)).collect();
            let ann = NodeAnnouncement {
                version: 1,
                features: radicle::node::Features::SEED,
                timestamp: timestamp(rng.u64(..1 << 62)),
                alias: Alias::new("a".repeat(n("alias"))),
                addresses: BoundedVec::try_from(addrs).unwrap_or_else(|e| fatal(&format!("address vector refused: {e}"))),
                nonce: rng.u64(..),
                agent: agent_of_len(n("agent")),
            };
            Message::node(ann, &s)
        }
        "inventory" => {
            let inv: Vec<RepoId> = (0..n("inv")).map(|_| RepoId::from(oid(rng))).collect();
            Message::inventory(
                InventoryAnnouncement { inventory: BoundedVec::try_from(inv).unwrap_or_else(|e| fatal(&format!("inventory refused: {e}"))), timestamp: timestamp(1) },
                &s,
            )
        }
        "refs" => {
            let refs: Vec<RefsAt> = (0..n("refs")).map(|_| RefsAt { remote: *s.public_key(), at: oid(rng) }).collect();
            AnnouncementMessage::from(RefsAnnouncement {
                rid: RepoId::from(oid(rng)),
                refs: BoundedVec::try_from(refs).unwrap_or_else(|e| fatal(&format!("refs refused: {e}"))),
                timestamp: timestamp(2),
            })
            .signed(&s)
            .into()
        }
        "subscribe" => {
            let mut bytes = vec![0u8; n("filter")];
            for _ in 0..32 {
                let i = rng.usize(0..bytes.len());
                bytes[i] = rng.u8(..);
            }
            Message::subscribe(Filter::from(bloomy::BloomFilter::from(bytes)), timestamp(5), timestamp(6))
        }
        "info" => Message::Info(Info::RefsAlreadySynced { rid: RepoId::from(oid(rng)), at: oid(rng) }),
        "ping" => Message::Ping(Ping { ponglen: rng.u16(..), zeroes: ZeroBytes::new(n("zeroes") as u16) }),
        "pong" => Message::Pong { zeroes: ZeroBytes::new(n("zeroes") as u16) },
        other => fatal(&format!("message type {other}")),
    }
}

fn check_sized(case: &Value, rng: &mut fastrand::Rng, size_max: usize) -> Result<(), (String, String)> {
    let m = &case["msg"];
    let ty = m["type"].as_str().unwrap().to_string();
    let msg = guard(|| build_sized(m, rng)).map_err(|p| (format!("size:{ty}:build-panicked"), p))?;
    let bytes = guard(|| wire::serialize(&msg)).map_err(|p| (format!("size:{ty}:encode-failed"), format!("a message within the limits cannot be encoded: {p}")))?;
    let want = case["size"].as_u64().unwrap() as usize;
    if bytes.len() > size_max {
        return Err((format!("size:{ty}:exceeds-frame"), format!("encodes to {} bytes > {size_max}", bytes.len())));
    }
    if bytes.len() != want {
        return Err((format!("size:{ty}:size-differs"), format!("model Size = {want}, real encoding has {} bytes", bytes.len())));
    }
    let back = guard(|| wire::deserialize::<Message>(&bytes)).map_err(|p| (format!("size:{ty}:decode-panicked"), p))?;
    match back {
        Ok(b) if b == msg => {
            let again = wire::serialize(&b);
            if again != bytes {
                return Err((format!("size:{ty}:reencode-differs"), "decode then encode gives other bytes".into()));
            }
        }
        Ok(_) => return Err((format!("size:{ty}:roundtrip-differs"), "decodes to a different message".into())),
        Err(e) => return Err((format!("size:{ty}:roundtrip-fails"), format!("own encoding is refused: {e}"))),
    }
    // and through a gossip frame
    let fb = Frame::<Message>::gossip(Link::Outbound, msg.clone()).to_bytes();
    let mut de = Deserializer::<MAX_INBOX_SIZE, Frame>::default();
    de.input(&fb).map_err(|e| (format!("size:{ty}:frame-too-big"), e.to_string()))?;
    match de.deserialize_next() {
        Ok(Some(Frame { data: FrameData::Gossip(b), .. })) if b == msg && de.is_empty() => Ok(()),
        other => Err((format!("size:{ty}:frame-roundtrip"), format!("gossip frame does not round-trip: {:?}", other.map(|o| o.is_some()).map_err(|e| e.to_string())))),
    }
}

// ------------------------------------------------------------------------------------------------
// part "enc"

const I64MAX: u64 = i64::MAX as u64;

fn time_bytes(v: &str, rng: &mut fastrand::Rng) -> Vec<u8> {
    match v {
        "ok" => rng.u64(1..1 << 50),
        "zero" => 0,
        "max" => I64MAX,
        "over" => if rng.bool() { I64MAX + 1 } else { u64::MAX },
        o => fatal(&format!("time variant {o}")),
    }
    .to_be_bytes()
    .to_vec()
}

fn str_bytes(s: &[u8]) -> Vec<u8> {
    let mut b = vec![s.len() as u8];
    b.extend(s);
    b
}

fn oid_bytes(v: &str, rng: &mut fastrand::Rng) -> Vec<u8> {
    match v {
        "ok" => {
            let mut b = vec![0, 20];
            b.extend(rand_bytes(rng, 20));
            b
        }
        _ => {
            let n = if rng.bool() { 19 } else { 32 };
            let mut b = vec![0, n as u8];
            b.extend(rand_bytes(rng, n));
            b
        }
    }
}

fn addr_bytes(kind: u8, rng: &mut fastrand::Rng) -> Vec<u8> {
    let mut b = vec![kind];
    match kind {
        1 => b.extend(rand_bytes(rng, 4)),
        2 => {
            if rng.u8(0..3) == 0 {
                // IPv4-mapped IPv6
                b.extend([0u8; 10]);
                b.extend([0xff, 0xff]);
                b.extend(rand_bytes(rng, 4));
            } else {
                b.extend(rand_bytes(rng, 16));
            }
        }
        3 => b.extend(str_bytes(b"Seed.Radicle.XYZ")),
        4 => {
            if let HostName::Tor(a) = onion() {
                b.extend(a.into_raw_bytes());
            }
        }
        _ => b.extend(rand_bytes(rng, 6)),
    }
    b.extend(rng.u16(..).to_be_bytes());
    b
}

fn vec_of(count: usize, mut item: impl FnMut() -> Vec<u8>) -> Vec<u8> {
    let mut b = (count as u16).to_be_bytes().to_vec();
    for _ in 0..count {
        b.extend(item());
    }
    b
}

fn field_bytes(ty: &str, field: &str, v: &str, rng: &mut fastrand::Rng, lim: &Limits) -> Vec<u8> {
    match field {
        "type" => match v {
            "ok" => {
                let id: u16 = match ty { "node" => 2, "inventory" => 4, "refs" => 6, "subscribe" => 8, "ping" => 10, "pong" => 12, "info" => 14, _ => fatal("type") };
                id.to_be_bytes().to_vec()
            }
            _ => [[0u8, 3], [0, 0], [0, 16], [2, 2], [255, 255]][rng.usize(0..5)].to_vec(),
        },
        "node" => if v == "ok" { signer().public_key().to_vec() } else { vec![0; 32] },
        "sig" => vec![0; 64], // filled in afterwards
        "version" => vec![if v == "ok" { 1 } else { 255 }],
        "features" => (if v == "ok" { 1u64 } else { u64::MAX }).to_be_bytes().to_vec(),
        "timestamp" | "since" | "until" => time_bytes(v, rng),
        "alias" => match v {
            "ok" => str_bytes(b"alice"),
            "max" => str_bytes("a".repeat(lim.alias_max).as_bytes()),
            "empty" => vec![0],
            "toolong" => str_bytes("a".repeat(lim.alias_max + 1).as_bytes()),
            "control" => str_bytes(if rng.bool() { b"al\nce" } else { b"al ce" }),
            _ => vec![2, 0xff, 0xfe],
        },
        "addresses" => match v {
            "ok" => { let mut b = vec![0, 2]; b.extend(addr_bytes(1, rng)); b.extend(addr_bytes(3, rng)); b }
            "empty" => vec![0, 0],
            "limit" => { let mut k = 0u8; vec_of(lim.address_limit, || { k += 1; addr_bytes(1 + k % 4, &mut fastrand::Rng::with_seed(k as u64)) }) }
            "over" => vec_of(lim.address_limit + 1, || addr_bytes(1, &mut fastrand::Rng::with_seed(1))),
            "dup" => { let a = addr_bytes(2, rng); let mut b = vec![0, 2]; b.extend(&a); b.extend(&a); b }
            "dnsempty" => vec![0, 1, 3, 0, 0x22, 0x48],
            "unknowntype" => { let mut b = vec![0, 1]; b.extend(addr_bytes(if rng.bool() { 0 } else { 5 + rng.u8(0..200) }, rng)); b }
            "dnsnonutf8" => vec![0, 1, 3, 2, 0xff, 0xfe, 0x22, 0x48],
            _ => { let mut a = addr_bytes(4, rng); a[33] ^= 0x55; let mut b = vec![0, 1]; b.extend(a); b } // onion: checksum broken
        },
        "nonce" => (if v == "ok" { rng.u64(..) } else { u64::MAX }).to_be_bytes().to_vec(),
        "agent" => match v {
            "ok" => str_bytes(b"/radicle:1.0.0/heartwood:0.9/"),
            "explicitdefault" => str_bytes(UserAgent::default().as_str().as_bytes()),
            "max" => str_bytes(agent_of_len(lim.agent_max).as_str().as_bytes()),
            "absent" => vec![],
            "partial" => { let full = str_bytes(b"/radicle:1.0.0/"); full[..rng.usize(1..full.len())].to_vec() }
            "invalid" => str_bytes(if rng.bool() { b"radicle" } else { b"//" }),
            "toolong" => str_bytes(format!("/{}/", "a".repeat(lim.agent_max - 1)).as_bytes()),
            _ => vec![2, 0xff, 0xfe],
        },
        "inventory" => match v {
            "ok" => vec_of(2, || oid_bytes("ok", rng)),
            "empty" => vec![0, 0],
            "limit" => vec_of(lim.inventory_limit, || oid_bytes("ok", rng)),
            "over" => vec_of(lim.inventory_limit + 1, || oid_bytes("ok", rng)),
            "dup" => { let a = oid_bytes("ok", rng); let mut b = vec![0, 2]; b.extend(&a); b.extend(&a); b }
            _ => vec_of(1, || oid_bytes("bad", rng)),
        },
        "rid" | "oid" => oid_bytes(v, rng),
        "refs" => {
            let pk = signer().public_key().to_vec();
            let mut item = |good: bool, rng: &mut fastrand::Rng| { let mut b = pk.clone(); b.extend(oid_bytes(if good { "ok" } else { "bad" }, rng)); b };
            match v {
                "ok" => vec_of(2, || item(true, rng)),
                "empty" => vec![0, 0],
                "limit" => vec_of(lim.ref_remote_limit, || item(true, rng)),
                "over" => vec_of(lim.ref_remote_limit + 1, || item(true, rng)),
                "dup" => { let a = item(true, rng); let mut b = vec![0, 2]; b.extend(&a); b.extend(&a); b }
                _ => vec_of(1, || item(false, rng)),
            }
        }
        "filter" => {
            let sizes = &lim.filter_sizes;
            let n: usize = match v {
                "ok" => sizes[0],
                "medium" => sizes[1],
                "large" => sizes[2],
                "zero" => 0,
                "odd" => 5,
                "between" => (sizes[0] + sizes[1]) / 2,
                _ => 65535,
            };
            let mut b = (n as u16).to_be_bytes().to_vec();
            b.extend(rand_bytes(rng, n.min(20000)));
            b
        }
        "infotype" => if v == "ok" { vec![0, 1] } else { vec![0, 9] },
        "ponglen" => (if v == "ok" { rng.u16(..) } else { u16::MAX }).to_be_bytes().to_vec(),
        "zeroes" => match v {
            "ok" => vec![0, 5, 0, 0, 0, 0, 0],
            "empty" => vec![0, 0],
            _ => vec![0, 5, 0, 0, 1 + rng.u8(0..255), 0, 0],
        },
        other => fatal(&format!("field {other}")),
    }
}

struct Limits {
    inventory_limit: usize,
    ref_remote_limit: usize,
    address_limit: usize,
    alias_max: usize,
    agent_max: usize,
    filter_sizes: Vec<usize>,
    size_max: usize,
}

fn agent_max() -> usize {
    // the limit is enforced by UserAgent::from_str; find it
    (3..300).take_while(|n| UserAgent::from_str(&format!("/{}/", "a".repeat(n - 2))).is_ok()).last().unwrap_or(0)
}
fn alias_max() -> usize {
    (1..300).take_while(|n| Alias::from_str(&"a".repeat(*n)).is_ok()).last().unwrap_or(0)
}

fn limits() -> Limits {
    Limits {
        inventory_limit: INVENTORY_LIMIT,
        ref_remote_limit: REF_REMOTE_LIMIT,
        address_limit: ADDRESS_LIMIT,
        alias_max: alias_max(),
        agent_max: agent_max(),
        filter_sizes: FILTER_SIZES.to_vec(),
        size_max: wire::Size::MAX as usize,
    }
}

fn check_enc(case: &Value, rng: &mut fastrand::Rng, lim: &Limits) -> Result<(bool, bool), (String, String, String)> {
    let ty = case["type"].as_str().unwrap();
    let fields: Vec<&str> = case["fields"].as_array().unwrap().iter().map(|x| x.as_str().unwrap()).collect();
    let vars: Vec<&str> = case["v"].as_array().unwrap().iter().map(|x| x.as_str().unwrap()).collect();
    let cut = case["cut"].as_u64().unwrap() as usize;
    let trailing = case["trailing"].as_bool().unwrap();
    let dev: Vec<String> = fields.iter().zip(&vars).filter(|(_, v)| **v != "ok").map(|(f, v)| format!("{f}={v}")).collect();
    let mut label = dev.join(",");
    if cut < fields.len() {
        label = format!("cut-after-{cut}");
    }
    if trailing {
        label.push_str("+trailing");
    }
    let sig_of = |what: &str| format!("enc:{ty}:{label}:{what}");
    // materialise
    let mut parts: Vec<Vec<u8>> = fields.iter().zip(&vars).map(|(f, v)| field_bytes(ty, f, v, rng, lim)).collect();
    let is_ann = fields.get(2) == Some(&"sig");
    if is_ann {
        // the sender signs the bytes it sends
        let body: Vec<u8> = parts[3..].concat();
        use radicle::crypto::signature::Signer as _;
        let s: Signature = signer().sign(&body);
        parts[2] = s.to_vec();
    }
    let mut bytes: Vec<u8> = parts[..cut].concat();
    if trailing {
        bytes.extend([0xab, 0xcd, 0x01]);
    }
    let hexs = hex(&bytes);
    let strict = guard(|| wire::deserialize::<Message>(&bytes)).map_err(|p| (sig_of("decode-panicked"), p, hexs.clone()))?;
    let got = match &strict { Ok(_) => "ok".to_string(), Err(e) => error_kind(e) };
    let want = case["strict"].as_str().unwrap();
    if got != want {
        return Err((sig_of(&format!("outcome-{got}-expected-{want}")), format!("wire::deserialize gives {got} ({}), the variant table says {want}",
                    strict.as_ref().err().map(|e| e.to_string()).unwrap_or_default()), hexs));
    }
    let framed = guard(|| framed_decode(&bytes)).map_err(|p| (sig_of("framed-decode-panicked"), p, hexs.clone()))?;
    let gotf = match &framed { Ok(Some(_)) => "ok".to_string(), Ok(None) => "Incomplete".to_string(), Err(e) => error_kind(e) };
    let wantf = case["framed"].as_str().unwrap();
    if gotf != wantf {
        return Err((sig_of(&format!("framed-outcome-{gotf}-expected-{wantf}")), format!("as a gossip frame payload: {gotf}, model: {wantf}"), hexs));
    }
    let mut verified = false;
    if let Ok(msg) = &strict {
        let re = wire::serialize(msg);
        let same = re == bytes;
        let reenc = case["reencodes"].as_bool().unwrap();
        if same != reenc {
            return Err((sig_of(if same { "canonical-but-model-says-not" } else { "accepted-noncanonical" }),
                        format!("accepted bytes re-encode {} (model: {}); re-encoding = {}", if same { "identically" } else { "differently" },
                                if reenc { "identically" } else { "differently" }, hex(&re)), hexs));
        }
        if !same {
            // the one allowed exception: the re-encoding is the input plus the default user agent
            let mut with_agent = bytes.clone();
            with_agent.extend(str_bytes(UserAgent::default().as_str().as_bytes()));
            if !(case["agentabsent"].as_bool().unwrap() && re == with_agent) {
                return Err((sig_of("accepted-noncanonical"), "re-encoding differs by more than the missing default user agent".into(), hexs));
            }
        }
        if let Message::Announcement(ann) = msg {
            if vars[1] == "ok" {
                verified = ann.verify();
                if same && !verified {
                    return Err((sig_of("signature-not-over-sent-bytes"), "the announcement was signed over the bytes as sent and re-encodes identically, but verify() fails".into(), hexs));
                }
            }
        }
    }
    Ok((strict.is_ok(), verified))
}

// ------------------------------------------------------------------------------------------------
// random

fn random_message(rng: &mut fastrand::Rng) -> Message {
    let mut g = qcheck::Gen::from_seed(rng.u64(..));
    g.set_size(rng.usize(1..48));
    Message::arbitrary(&mut g)
}

fn type_name(m: &Message) -> &'static str {
    match m {
        Message::Subscribe(_) => "subscribe",
        Message::Announcement(a) => match a.message {
            AnnouncementMessage::Node(_) => "node",
            AnnouncementMessage::Inventory(_) => "inventory",
            AnnouncementMessage::Refs(_) => "refs",
        },
        Message::Info(_) => "info",
        Message::Ping(_) => "ping",
        Message::Pong { .. } => "pong",
    }
}

fn mutate(b: &mut Vec<u8>, rng: &mut fastrand::Rng) {
    for _ in 0..rng.usize(1..=3) {
        if b.is_empty() {
            return;
        }
        let n = b.len();
        // bias towards the tail (optional fields, padding) and the head (type, lengths)
        let i = match rng.u8(0..4) { 0 => n - 1 - rng.usize(0..n.min(24)), 1 => rng.usize(0..n.min(110)), _ => rng.usize(0..n) };
        match rng.u8(0..8) {
            0 => b[i] ^= 1 << rng.u8(0..8),
            1 => b[i] = rng.u8(..),
            2 => b.truncate(n - rng.usize(1..=n.min(70))),
            3 => { let k = rng.usize(1..6); let ins = rand_bytes(rng, k); b.extend(ins); }
            4 => b[i] = 0,
            5 => b[i] = 0xff,
            6 => { let j = (i + rng.usize(1..4)).min(n); b.drain(i..j); }
            _ => { let k = rng.usize(1..4); let ins = rand_bytes(rng, k); b.splice(i..i, ins); }
        }
    }
}

fn main() {
    let args = Args::parse();
    quiet_panics();
    let mode = args.req("--mode").to_string();
    let lim = limits();
    match mode.as_str() {
        "limits" => {
            let mut out = Out::create(Path::new(args.req("--out")));
            out.emit(&json!({
                "InventoryLimit": lim.inventory_limit, "RefRemoteLimit": lim.ref_remote_limit, "AddressLimit": lim.address_limit,
                "AliasMax": lim.alias_max, "AliasMaxConst": radicle::node::MAX_ALIAS_LENGTH, "AgentMax": lim.agent_max,
                "HostMax": u8::MAX, "MaxPingZeroes": Ping::MAX_PING_ZEROES, "MaxPongZeroes": Ping::MAX_PONG_ZEROES,
                "FilterSizes": lim.filter_sizes, "SizeMax": lim.size_max, "MessageMaxSize": Message::MAX_SIZE,
                "DefaultAgentLen": UserAgent::default().as_str().len(),
            }));
            out.finish();
        }
        "replay" => {
            let cases = read_ndjson(Path::new(args.req("--cases")));
            let mut out = Out::create(Path::new(args.req("--out")));
            let (mut nsize, mut nenc, mut accepted, mut rejected, mut verified, mut fails) = (0u64, 0u64, 0u64, 0u64, 0u64, 0u64);
            let variants = args.num("--variants", 2);
            for (idx, c) in cases.iter().enumerate() {
                match c["part"].as_str() {
                    Some("size") => {
                        nsize += 1;
                        let mut rng = fastrand::Rng::with_seed(seed() ^ (idx as u64) << 8);
                        if let Err((sig, desc)) = check_sized(c, &mut rng, lim.size_max) {
                            fails += 1;
                            out.emit(&json!({"ok": false, "sig": sig, "desc": desc, "case": c}));
                        }
                    }
                    Some("enc") => {
                        for v in 0..variants {
                            nenc += 1;
                            let mut rng = fastrand::Rng::with_seed(seed() ^ ((idx as u64) << 8) ^ v);
                            match check_enc(c, &mut rng, &lim) {
                                Ok((acc, ver)) => {
                                    accepted += acc as u64;
                                    rejected += !acc as u64;
                                    verified += ver as u64;
                                }
                                Err((sig, desc, bytes)) => {
                                    fails += 1;
                                    out.emit(&json!({"ok": false, "sig": sig, "desc": desc, "bytes": bytes, "case": c}));
                                    break;
                                }
                            }
                        }
                    }
                    _ => fatal("case without part"),
                }
            }
            out.emit(&json!({"summary": true, "size_cases": nsize, "enc_evaluations": nenc, "accepted": accepted, "rejected": rejected,
                             "signatures_verified": verified, "failures": fails}));
            out.finish();
        }
        "random" => {
            let n = args.num("--n", 1000);
            let mut out = Out::create(Path::new(args.req("--out")));
            let mut rng = fastrand::Rng::with_seed(seed());
            let (mut roundtrips, mut mutated, mut decoded, mut exception, mut fails) = (0u64, 0u64, 0u64, 0u64, 0u64);
            let mut decoded_by_type: std::collections::BTreeMap<&str, u64> = Default::default();
            let default_agent = str_bytes(UserAgent::default().as_str().as_bytes());
            let mut seen: std::collections::HashSet<String> = Default::default();
            for i in 0..n {
                let msg = random_message(&mut rng);
                let bytes = wire::serialize(&msg);
                // (a) ordinary round trip
                roundtrips += 1;
                match guard(|| wire::deserialize::<Message>(&bytes)) {
                    Ok(Ok(m)) if m == msg && wire::serialize(&m) == bytes => {}
                    other => {
                        fails += 1;
                        let sig = format!("roundtrip:{}", type_name(&msg));
                        if seen.insert(sig.clone()) {
                            out.emit(&json!({"ok": false, "sig": sig, "desc": format!("decode(encode(m)) != m: {:?}", other.map(|r| r.map(|_| "different message").map_err(|e| e.to_string()))),
                                             "bytes": hex(&bytes), "index": i}));
                        }
                    }
                }
                // (b) mutated bytes: what decodes must re-encode identically
                for _ in 0..4 {
                    let mut b = bytes.clone();
                    if rng.u8(0..40) == 0 {
                        // random bytes behind a valid message type
                        let k = rng.usize(0..200);
                        b = vec![0, [2u8, 4, 6, 8, 10, 12, 14][rng.usize(0..7)]];
                        b.extend(rand_bytes(&mut rng, k));
                    } else {
                        mutate(&mut b, &mut rng);
                    }
                    mutated += 1;
                    match guard(|| wire::deserialize::<Message>(&b)) {
                        Err(p) => {
                            fails += 1;
                            let sig = format!("random:{}:decode-panicked", type_name(&msg));
                            if seen.insert(sig.clone()) {
                                out.emit(&json!({"ok": false, "sig": sig, "desc": p, "bytes": hex(&b)}));
                            }
                        }
                        Ok(Err(_)) => {}
                        Ok(Ok(m)) => {
                            decoded += 1;
                            *decoded_by_type.entry(type_name(&m)).or_default() += 1;
                            let re = wire::serialize(&m);
                            if re != b {
                                let mut with_agent = b.clone();
                                with_agent.extend(&default_agent);
                                if type_name(&m) == "node" && re == with_agent {
                                    exception += 1;
                                } else {
                                    fails += 1;
                                    let first = re.iter().zip(&b).position(|(x, y)| x != y).unwrap_or(re.len().min(b.len()));
                                    let sig = format!("random:{}:accepted-noncanonical", type_name(&m));
                                    if seen.insert(sig.clone()) {
                                        out.emit(&json!({"ok": false, "sig": sig,
                                            "desc": format!("{} bytes decode to a {} message whose encoding has {} bytes and differs from offset {first}", b.len(), type_name(&m), re.len()),
                                            "bytes": hex(&b), "reencoded": hex(&re)}));
                                    }
                                }
                            }
                        }
                    }
                }
            }
            out.emit(&json!({"summary": true, "roundtrips": roundtrips, "mutated": mutated, "mutated_decoded": decoded,
                             "decoded_by_type": decoded_by_type, "agent_absent_exception": exception, "failures": fails}));
            out.finish();
        }
        _ => fatal("unknown mode"),
    }
    let _ = PublicKey::from([0u8; 32]);
}
