"""Shared machinery for the /verif checks.

A check (props/Cnn.py) uses a `Ctx` to:
  * rebuild the Rust harness against the current working tree of the repository (`build`)
  * run TLC on a bounded instance of a module (`tlc`) and collect states / transitions / coverage /
    emitted cases (lines printed by the spec as <<"CASE", json>>)
  * run a harness engine (`engine`)
  * validate an ndjson trace recorded from the implementation against a Trace*.tla spec (`validate`)
  * report violations (matched against known-findings.json) and write the evidence file.

Exit codes: 0 held / only known findings; 1 VIOLATION; 2 tool error or inconclusive.
"""
import fcntl
import json
import os
import re
import shutil
import subprocess
import sys
import time

VERIF = os.path.dirname(os.path.dirname(os.path.abspath(__file__)))
REPO = os.environ.get("VERIF_REPO") or os.path.normpath(os.path.join(VERIF, "..", "repo"))
HARNESS = os.path.join(VERIF, "harness")
SPEC = os.path.join(VERIF, "spec")
EVID = os.path.join(VERIF, "evidence")
TLA_CP = "/opt/veriftools/tla/tla2tools.jar:/opt/veriftools/tla/CommunityModules-deps.jar"


class ToolError(Exception):
    pass


def log(msg):
    print(f"[check] {msg}", file=sys.stderr, flush=True)


class TlcResult:
    def __init__(self):
        self.rc = None
        self.out = ""
        self.states = 0          # states generated
        self.distinct = 0        # distinct states
        self.cases = []          # parsed JSON payloads of <<"CASE", json>> lines
        self.coverage = {}       # action name -> (distinct, total)
        self.violated = None     # name of violated invariant / property, if any
        self.error_trace = []    # raw lines of the counterexample
        self.depth = 0
        self.wall = 0.0
        self.timed_out = False


class Ctx:
    def __init__(self, prop, tier, seed):
        self.prop = prop
        self.tier = tier
        self.seed = seed
        self.t0 = time.time()
        self.work = os.path.join(VERIF, "work", f"{prop}-{os.getpid()}")
        os.makedirs(self.work, exist_ok=True)
        os.makedirs(EVID, exist_ok=True)
        self.violations = []      # (signature, description, replay object)
        self.known_hits = {}      # signature -> description
        self.cov = {"states": 0, "transitions": 0, "traces_validated_against_impl": 0,
                    "evaluations": 0, "distinct_nontrivial": 0, "samples": [], "exhaustive": False,
                    "tlc_runs": []}
        self.assumptions = []
        self.known = load_known(prop)

    # ------------------------------------------------------------------ build
    def build(self, *bins):
        lock = open(os.path.join(HARNESS, ".build.lock"), "w")
        fcntl.flock(lock, fcntl.LOCK_EX)
        try:
            src = os.path.join(REPO, "Cargo.lock")
            dst = os.path.join(HARNESS, "Cargo.lock")
            if not os.path.exists(dst):
                shutil.copy(src, dst)
            cmd = ["cargo", "build", "--offline", "--quiet"]
            for b in bins:
                cmd += ["--bin", b]
            t = time.time()
            env = dict(os.environ, CARGO_NET_OFFLINE="true")
            p = subprocess.run(cmd, cwd=HARNESS, env=env, stdout=subprocess.PIPE,
                               stderr=subprocess.STDOUT, text=True)
            if p.returncode != 0:
                # retry once with a fresh lock file (the repository's lock may have changed)
                shutil.copy(src, dst)
                p = subprocess.run(cmd, cwd=HARNESS, env=env, stdout=subprocess.PIPE,
                                   stderr=subprocess.STDOUT, text=True)
            if p.returncode != 0:
                tail = "\n".join(l for l in p.stdout.splitlines() if "warning" not in l)[-4000:]
                raise ToolError(f"cargo build failed:\n{tail}")
            log(f"harness built ({', '.join(bins)}) in {time.time()-t:.1f}s")
        finally:
            fcntl.flock(lock, fcntl.LOCK_UN)
            lock.close()

    def bin(self, name):
        return os.path.join(HARNESS, "target", "debug", name)

    # ------------------------------------------------------------------ TLC
    def tlc(self, module, cfg=None, workers=4, timeout=600, simulate=None, depth=None,
            env=None, coverage=True, deque=False, heap="4g", expect_cases=False,
            deadlock=False, extra=None, count=True, label=None):
        """Run TLC on spec/<module>.tla with spec/<cfg>. Returns TlcResult.
        simulate: number of traces for -simulate mode.
        Models that bound the behaviour length through a history variable hidden by a VIEW must be run with
        workers=1: only a strict breadth-first search reaches every view-state by a shortest path first; with
        several workers a state first reached by a longer path has its successors cut by the bound and the
        explored set shrinks nondeterministically (observed: 19 k .. 31 k states for the same instance)."""
        res = TlcResult()
        cfg = cfg or module + ".cfg"
        meta = os.path.join(self.work, f"tlc-{module}-{len(self.cov['tlc_runs'])}")
        os.makedirs(meta, exist_ok=True)
        jopts = ["-XX:+UseParallelGC", f"-Xmx{heap}", "-Xss512m"]
        if deque:
            jopts.append("-Dtlc2.tool.queue.IStateQueue=StateDeque")
        cmd = ["timeout", "-k", "10", str(timeout), "java"] + jopts + ["-cp", TLA_CP, "tlc2.TLC",
               "-workers", str(workers), "-metadir", meta, "-cleanup", "-noGenerateSpecTE",
               "-config", cfg]
        if coverage and not simulate:
            cmd += ["-coverage", "1"]
        if not deadlock:
            cmd += ["-deadlock"]
        if simulate:
            cmd += ["-simulate", f"num={simulate}"]
            cmd += ["-seed", str(self.seed)]
        if depth:
            cmd += ["-depth", str(depth)]
        if extra:
            cmd += extra
        cmd += [module + ".tla"]
        e = dict(os.environ)
        e.pop("JAVA_TOOL_OPTIONS", None)
        if env:
            e.update({k: str(v) for k, v in env.items()})
        t = time.time()
        p = subprocess.run(cmd, cwd=SPEC, env=e, stdout=subprocess.PIPE, stderr=subprocess.STDOUT,
                           text=True, errors="replace")
        res.wall = time.time() - t
        res.rc = p.returncode
        res.out = p.stdout
        shutil.rmtree(meta, ignore_errors=True)
        if p.returncode in (124, 137):
            res.timed_out = True
        parse_tlc(res)
        if count:
            self.cov["states"] += res.distinct
            self.cov["transitions"] += res.states
        self.cov["tlc_runs"].append({"module": module, "cfg": cfg, "label": label,
                                     "mode": "simulate" if simulate else "bfs",
                                     "distinct_states": res.distinct, "states_generated": res.states,
                                     "depth": res.depth, "wall_s": round(res.wall, 1),
                                     "cases_emitted": len(res.cases),
                                     "timed_out": res.timed_out})
        log(f"TLC {module}/{cfg}: rc={res.rc} distinct={res.distinct} generated={res.states} "
            f"cases={len(res.cases)} {res.wall:.1f}s" + (" TIMEOUT" if res.timed_out else ""))
        return res

    def tlc_ok(self, res, what, allow_timeout=False):
        """Raise ToolError unless the TLC run finished without error (or violation)."""
        if res.timed_out and allow_timeout:
            return
        if res.timed_out:
            raise ToolError(f"{what}: TLC timed out")
        if res.violated:
            return
        if res.rc != 0:
            raise ToolError(f"{what}: TLC failed rc={res.rc}\n{res.out[-3000:]}")

    def require_coverage(self, res, actions):
        """Vacuity guard: every named action must have been taken at least once."""
        missing = [a for a in actions if res.coverage.get(a, (0, 0))[1] == 0]
        if missing:
            raise ToolError(f"vacuous model run: actions never taken: {missing}")

    def write_cases(self, cases, name="cases.ndjson"):
        path = os.path.join(self.work, name)
        with open(path, "w") as f:
            for c in cases:
                f.write(json.dumps(c, separators=(",", ":")) + "\n")
        return path

    # ------------------------------------------------------------------ harness engines
    def engine(self, binname, args, timeout=1800, env=None, ok_codes=(0,)):
        e = dict(os.environ, VERIF_SEED=str(self.seed), RUST_BACKTRACE="0")
        if env:
            e.update({k: str(v) for k, v in env.items()})
        t = time.time()
        p = subprocess.run(["timeout", "-k", "10", str(timeout), self.bin(binname)] + [str(a) for a in args],
                           cwd=self.work, env=e, stdout=subprocess.PIPE, stderr=subprocess.PIPE,
                           text=True, errors="replace")
        log(f"engine {binname} {' '.join(str(a) for a in args[:6])}: rc={p.returncode} {time.time()-t:.1f}s")
        if p.returncode in (124, 137):
            raise ToolError(f"engine {binname} timed out")
        if p.returncode not in ok_codes:
            raise ToolError(f"engine {binname} failed rc={p.returncode}\n{p.stderr[-3000:]}\n{p.stdout[-2000:]}")
        return p

    def read_ndjson(self, path):
        out = []
        with open(path) as f:
            for l in f:
                l = l.strip()
                if l:
                    out.append(json.loads(l))
        return out

    # ------------------------------------------------------------------ trace validation
    def validate(self, module, cfg, trace_path, timeout=900, heap="4g", env=None, label=None):
        """Validate an ndjson trace against spec/<module>.tla (a Trace spec that reads IOEnv.TRACE
        and has POSTCONDITION printing `TRACE-REJECTED at=<n> …` when no behaviour matches).
        Returns (accepted: bool, info: dict)."""
        e = {"TRACE": trace_path}
        if env:
            e.update(env)
        res = self.tlc(module, cfg, workers=1, timeout=timeout, env=e, coverage=False, deque=True,
                       heap=heap, label=label or "trace-validation")
        info = {"out_tail": res.out[-2500:], "violated": res.violated}
        if res.timed_out:
            raise ToolError(f"trace validation {module} timed out")
        m = re.search(r"TRACE-REJECTED[^\n]*", res.out)
        if m:
            info["rejected"] = m.group(0)
            return False, info, res
        if res.violated:
            return False, info, res
        if res.rc != 0:
            raise ToolError(f"trace validation {module}: TLC failed rc={res.rc}\n{res.out[-3000:]}")
        if "TRACE-ACCEPTED" not in res.out:
            raise ToolError(f"trace validation {module}: no verdict line\n{res.out[-3000:]}")
        return True, info, res

    # ------------------------------------------------------------------ verdicts
    def violation(self, signature, description, replay):
        """Record a violation. `signature` is a stable string identifying the failing input /
        history shape; if known-findings.json lists it (exact match or regex under "match") it is
        reported as KNOWN-FINDING instead."""
        for k in self.known:
            if k.get("status", "open") != "open":
                continue
            if k.get("signature") == signature or (k.get("match") and re.fullmatch(k["match"], signature)):
                key = k.get("id") or k.get("signature") or k.get("match")
                if key not in self.known_hits:
                    self.known_hits[key] = k.get("what", description)
                return False
        self.violations.append((signature, description, replay))
        return True

    def finish(self, level="model_checking", rule="", extra=None):
        for key, what in self.known_hits.items():
            print(f"KNOWN-FINDING: property={self.prop} {what}")
        cov = dict(self.cov)
        cov["rule"] = rule
        if extra:
            cov.update(extra)
        cov["samples"] = cov["samples"][:8] or ["(none)"]
        cov["known_findings_hit"] = sorted(self.known_hits)
        ev = {"property_id": self.prop, "tier": self.tier, "seed": self.seed, "level": level,
              "coverage": cov, "assumptions": self.assumptions,
              "wall_s": round(time.time() - self.t0, 2), "violations": len(self.violations)}
        with open(os.path.join(EVID, f"{self.prop}.json"), "w") as f:
            json.dump(ev, f, indent=1, sort_keys=False)
            f.write("\n")
        rc = 0
        rdir = os.path.join(EVID, "replays")
        if os.path.isdir(rdir):
            for fn in os.listdir(rdir):
                if fn.startswith(self.prop + "-"):
                    os.remove(os.path.join(rdir, fn))
        if self.violations:
            os.makedirs(rdir, exist_ok=True)
            seen = set()
            k = 0
            for sig, desc, replay in self.violations:
                if sig in seen:
                    continue
                seen.add(sig)
                k += 1
                if k > 10:
                    break
                path = os.path.join(rdir, f"{self.prop}-{k}.json")
                with open(path, "w") as f:
                    json.dump({"property": self.prop, "signature": sig, "description": desc,
                               "replay": replay}, f, indent=1)
                print(f"VIOLATION property={self.prop} replay={path}")
                print(f"  {sig}: {desc}"[:600])
            rc = 1
        shutil.rmtree(self.work, ignore_errors=True)
        return rc

    def cleanup(self):
        shutil.rmtree(self.work, ignore_errors=True)


def load_known(prop):
    """Known findings of a property. Source of truth: props/<prop>.findings.json (committed);
    known-findings.json is the aggregate generated from those fragments by lib/genmanifest.py."""
    path = os.path.join(VERIF, "props", f"{prop}.findings.json")
    if not os.path.exists(path):
        return []
    with open(path) as f:
        data = json.load(f)
    return [k for k in data if k.get("property") == prop]


_case_re = re.compile(r'^<<"CASE", "(.*)">>$')


def parse_tlc(res):
    lines = res.out.splitlines()
    for i, l in enumerate(lines):
        m = _case_re.match(l)
        if m:
            s = m.group(1)
            # TLC prints the string with TLA+ escaping: \" and \\
            s = s.replace('\\\\', '\x00').replace('\\"', '"').replace('\x00', '\\')
            try:
                res.cases.append(json.loads(s))
            except Exception:
                pass
            continue
        m = re.match(r"^(\d+) states generated, (\d+) distinct states found", l)
        if m:
            res.states, res.distinct = int(m.group(1)), int(m.group(2))
        m = re.match(r"^The depth of the complete state graph search is (\d+)", l)
        if m:
            res.depth = int(m.group(1))
        m = re.match(r"^Error: Invariant (\S+) is violated", l)
        if m:
            res.violated = m.group(1)
            res.error_trace = lines[i:i + 400]
        m = re.match(r"^Error: Action property (\S+) is violated", l)
        if m:
            res.violated = m.group(1)
            res.error_trace = lines[i:i + 400]
        m = re.match(r"^Error: Temporal property (\S+) was violated", l)
        if m:
            res.violated = res.violated or f"Temporal property {m.group(1)}"
            res.error_trace = lines[i:i + 400]
        if l.startswith("Error: Temporal properties were violated") or l.startswith("Error: Assumption"):
            res.violated = res.violated or l
            res.error_trace = lines[i:i + 400]
        # coverage: <Action line 12, col 1 to line 20, col 30 of module M>: 12:345
        m = re.match(r"^<(\w+) line \d+, col \d+ to line \d+, col \d+ of module \w+>: (\d+):(\d+)", l)
        if m:
            d, t = int(m.group(2)), int(m.group(3))
            old = res.coverage.get(m.group(1), (0, 0))
            res.coverage[m.group(1)] = (max(old[0], d), max(old[1], t))
    # simulation mode summary
    if res.states == 0:
        m = re.search(r"(\d+) states checked", res.out)
        if m:
            res.states = res.distinct = int(m.group(1))


def main(argv, registry_dir):
    import argparse
    import importlib.util
    ap = argparse.ArgumentParser()
    ap.add_argument("prop")
    ap.add_argument("--tier", default=os.environ.get("VERIF_TIER", "quick"), choices=["quick", "thorough"])
    ap.add_argument("--replay")
    ap.add_argument("--selftest", action="store_true")
    a = ap.parse_args(argv)
    seed = int(os.environ.get("VERIF_SEED", "1") or 1)
    path = os.path.join(registry_dir, a.prop + ".py")
    if not os.path.exists(path):
        print(f"no check for {a.prop}", file=sys.stderr)
        return 2
    spec = importlib.util.spec_from_file_location(a.prop, path)
    mod = importlib.util.module_from_spec(spec)
    spec.loader.exec_module(mod)
    ctx = Ctx(a.prop, a.tier, seed)
    try:
        if a.replay:
            return mod.replay(ctx, a.replay)
        if a.selftest:
            return mod.selftest(ctx)
        return mod.run(ctx)
    except ToolError as e:
        print(f"TOOL-ERROR property={a.prop}: {e}", file=sys.stderr)
        ctx.cleanup()
        return 2
    except Exception:
        import traceback
        traceback.print_exc()
        ctx.cleanup()
        return 2
