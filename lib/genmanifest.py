#!/usr/bin/env python3
"""Regenerates MANIFEST.json from props/<Cnn>.json fragments (+ props/_base.json) and
known-findings.json from props/<Cnn>.findings.json. Run after editing a fragment."""
import glob, json, os
V = os.path.dirname(os.path.dirname(os.path.abspath(__file__)))
base = json.load(open(os.path.join(V, "props", "_base.json")))
checks = []
claimed = set()
for f in sorted(glob.glob(os.path.join(V, "props", "C[0-9][0-9].json"))):
    frag = json.load(open(f))
    pid = frag["property_id"]
    claimed.add(pid)
    frag.setdefault("quick_cmd", f"./check {pid} --tier quick")
    frag.setdefault("thorough_cmd", f"./check {pid} --tier thorough")
    frag.setdefault("evidence_file", f"/verif/evidence/{pid}.json")
    frag.setdefault("replay_cmd_template", f"./check {pid} --replay {{path}}")
    checks.append(frag)
base["checks"] = checks
# engines: one harness binary (harness/src/bin/<name>.rs) per engine, found from the check modules
import re
engines = {}
for c in checks:
    pid = c["property_id"]
    src = open(os.path.join(V, "props", pid + ".py")).read()
    helpers = re.findall(r"^import (\w+) as \w+$|^import (_\w+)", src, re.M)
    names = [x for t in helpers for x in t if x] + re.findall(r'"(_\w+)\.py"|load\("(C\d\d)"\)', src) + (["C12", "C14", "gossip_common"] if pid == "C13" else [])
    names = [x if isinstance(x, str) else next((y for y in x if y), "") for x in names]
    if "_fetch.py" in src or "import _fetch" in src:
        names.append("_fetch")
    for h in names:
        hp = os.path.join(V, "props", h + ".py")
        if os.path.exists(hp):
            src += open(hp).read()
    for b in sorted(set(re.findall(r'"(c\d\d_\w+)"', src))):
        if os.path.exists(os.path.join(V, "harness", "src", "bin", b + ".rs")):
            e = engines.setdefault(b, {"name": b, "path": f"harness/src/bin/{b}.rs", "serves_properties": [],
                                       "kind_free_text": "Rust conformance engine: replays TLC-emitted cases/behaviours into the real code and records executions for TLC trace validation"})
            if pid not in e["serves_properties"]:
                e["serves_properties"].append(pid)
base["engines"] = [engines[k] for k in sorted(engines)]
base["not_applicable"] = [n for n in base.get("not_applicable", []) if n["property_id"] not in claimed]
allp = [json.loads(l)["id"] for l in open(os.path.join(V, "properties.jsonl"))]
listed = claimed | {n["property_id"] for n in base["not_applicable"]}
for p in allp:
    if p not in listed:
        base["not_applicable"].append({"property_id": p, "reason": "not yet built: check under construction (see DESIGN.md section 5); not a statement that the technique cannot apply"})
base["not_applicable"].sort(key=lambda n: n["property_id"])
json.dump(base, open(os.path.join(V, "MANIFEST.json"), "w"), indent=1)
findings = []
for f in sorted(glob.glob(os.path.join(V, "props", "C[0-9][0-9].findings.json"))):
    findings += json.load(open(f))
json.dump({"format": "one entry per finding; status open = printed as KNOWN-FINDING and suppressed when the check meets exactly this signature; status fixed = suppresses nothing (line: 'fixed: property=<id> <commit> <what failed>')",
           "findings": findings}, open(os.path.join(V, "known-findings.json"), "w"), indent=1)
print(f"{len(checks)} checks, {len(base['not_applicable'])} not_applicable, {len(findings)} findings")
