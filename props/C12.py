"""C12 Repository data is served only to peers allowed to see it (spec/Serve.tla), plus the
git-request-header part of C13 (`c13_part`, called from props/C13.py)."""
import json
import random
import os
import threading
import vlib

ENGINE = "c12_serve"

RULE = ("header cases = every scenario of kind hdr of MCServe (product of well/ill-formed command, path, host and extra "
        "pieces x length-field classes), each fed as real bytes to the real pktline::git_request; for a sample of the "
        "accepted ones the real upload_pack step is run on in-memory streams against a real storage; cells = (default "
        "policy x policy row x repository absent/visibility class/identity document unreadable x requester role) realised as one Handle::fetch between "
        "real nodes over loopback; plus recorded random headers and a recorded random sequence of policy changes, identity-head moves and "
        "fetches, validated by TLC (TraceServe). non-trivial = headers the real parser accepted + serve-step runs + cells")

# the cells around the decision boundary (quick tier):
# (default, policy row, present, identity document loads, private, allow list, requester)
QUICK = {("block", "allow", True, True, False, (), "O"), ("block", "allow", True, True, True, (), "O"),
         ("block", "allow", True, True, True, (), "D"),
         ("block", "allow", True, True, True, ("A",), "A"), ("block", "allow", True, True, True, ("A",), "O"),
         ("block", "block", True, True, False, (), "D"), ("block", "none", True, True, False, (), "O"),
         ("block", "none", True, True, True, ("A",), "A"), ("block", "allow", False, False, False, (), "O"),
         ("allow", "none", True, True, False, (), "O"), ("allow", "none", True, True, True, (), "O"),
         ("allow", "block", True, True, False, (), "O"),
         # seeded repositories whose identity document cannot be read on the responder: nobody can be shown to be allowed
         ("block", "allow", True, False, True, (), "O"), ("block", "allow", True, False, True, (), "D"),
         ("block", "allow", True, False, True, ("A",), "A"), ("allow", "none", True, False, False, (), "O")}

DEV = [("orig-nobounds", "C13_NoCrash"), ("fail-open-doc", "C12_ServeOnlyIfAllowed"), ("skip-visibility", "C12_ServeOnlyIfAllowed"),
       ("serve-other", "C12_ServedIsAuthorised"), ("early-data", "C12_RefusalBeforeData")]

LEN_CLASSES = {"exact", "upper", "plus", "long", "short", "eq4", "nonhex", "nonutf8", "noprefix",
               "lt4:0", "lt4:1", "lt4:2", "lt4:3", "gt:1025", "gt:65535"}


def cell_key(c):
    return (c["def"], c["pol"]["R1"], c["present"]["R1"], c["docok"]["R1"], c["private"]["R1"], tuple(c["allow"]["R1"]), c["n"])


def len_group(l):
    return "lt4" if l.startswith("lt4") else "gt1024" if l.startswith("gt") else l


def model_run(ctx, thorough):
    """Exhaustive TLC run of the bounded responder model; returns the emitted cases."""
    cfg = "MCServe_t.cfg" if thorough else "MCServe_q.cfg"
    res = ctx.tlc("MCServe", cfg, workers=4, timeout=2400 if thorough else 600, coverage=False,
                  label="exhaustive: every header scenario and every decision-table cell through the responder state machine; "
                        "invariants C12_ServeOnlyIfAllowed(+Now), C12_RefusalBeforeData, C12_ServedIsAuthorised, ParserSound, "
                        "C13_NoCrash, MachineIsDecision; ASSUME ParserComplete")
    ctx.tlc_ok(res, "MCServe")
    if res.violated:
        ctx.violation(f"model:{res.violated}", "the responder design violates the property in the bounded model",
                      {"tlc_counterexample": res.error_trace[:80]})
        return None
    hdr = [c for c in res.cases if c["k"] == "hdr"]
    cells = [c for c in res.cases if c["k"] == "cell"]
    # vacuity guards
    if not hdr or not cells:
        raise vlib.ToolError("TLC emitted no cases")
    if {c["len"] for c in hdr} != LEN_CLASSES:
        raise vlib.ToolError("vacuous case set: a length class is missing")
    if not any(o["ok"] for c in hdr for o in c["outs"]) or not any(not o["ok"] for c in hdr for o in c["outs"]):
        raise vlib.ToolError("vacuous case set: headers all accepted or all rejected")
    decs = {d for c in cells for d in c["dec"]}
    if not {"served", "refused:policy", "refused:visibility", "refused:storage", "refused:identity"} <= decs:
        raise vlib.ToolError(f"vacuous decision table: {decs}")
    return hdr, cells


def run(ctx):
    thorough = ctx.tier == "thorough"
    ctx.build(ENGINE)
    m = model_run(ctx, thorough)
    if m is None:
        return ctx.finish(rule=RULE)
    hdr, cells = m
    sel = cells if thorough else [c for c in cells if cell_key(c) in QUICK and c["pol"]["R2"] == "allow"]
    if not thorough and len(sel) != len(QUICK):
        raise vlib.ToolError(f"quick cell selection found {len(sel)} of {len(QUICK)} cells")

    errors = []
    results = {}

    def guarded(name, f):
        def g():
            try:
                results[name] = f()
            except BaseException as e:  # noqa
                errors.append((name, e))
        t = threading.Thread(target=g)
        t.start()
        return t

    # (A) the decision on the real code, end to end (real nodes); also records a trace
    e2e_out = os.path.join(ctx.work, "e2e.ndjson")
    e2e_trace = os.path.join(ctx.work, "e2e-trace.ndjson")
    cells_path = ctx.write_cases(sel, "cells.ndjson")

    def run_e2e():
        ctx.engine(ENGINE, ["--mode", "e2e", "--cases", cells_path, "--out", e2e_out, "--trace", e2e_trace,
                            "--dir", os.path.join(ctx.work, "nodes"), "--steps", 40 if thorough else 4],
                   timeout=2400 if thorough else 600, env={"RUST_LOG": "off"})
        return ctx.read_ndjson(e2e_out)

    # (B) sanity of the model itself: wrong variants must be rejected; policies changing under requests
    def run_aux():
        out = {}
        dyn = ctx.tlc("MCServe", "MCServe_dyn.cfg", workers=2, timeout=600, coverage=True,
                      label="exhaustive: requests from all nodes interleaved with policy changes (snapshot invariants)")
        ctx.tlc_ok(dyn, "MCServe dyn")
        if dyn.violated:
            out["dyn_violated"] = (dyn.violated, dyn.error_trace[:80])
        else:
            ctx.require_coverage(dyn, ["OpenM", "ReadHeaderM", "CheckPolicyM", "LoadRepoM", "LoadDocM", "CheckVisibleM", "StartUploadM", "SendDataM", "FinishM", "CloseM", "SetPolicyM", "SetDocM"])
        for variant, inv in (DEV if thorough else DEV[:3]):
            d = ctx.tlc("MCServe", f"MCServe_dev_{variant}.cfg", workers=2, timeout=600, coverage=False, count=False,
                        label=f"sanity: variant {variant} must violate {inv}")
            if d.violated != inv:
                raise vlib.ToolError(f"sanity run: variant {variant} was not rejected by TLC with {inv} (got {d.violated})")
        return out

    # (C) headers: every TLC case through the real parser (+ serve step), and recorded random headers
    hdr_path = ctx.write_cases(hdr, "hdr.ndjson")
    hdr_out = os.path.join(ctx.work, "hdr-verdicts.ndjson")
    rec = os.path.join(ctx.work, "rec-hdr.ndjson")

    def run_hdr():
        ctx.engine(ENGINE, ["--mode", "hdr", "--cases", hdr_path, "--out", hdr_out, "--serve-sample", 600 if thorough else 60,
                            "--dir", os.path.join(ctx.work, "serve")], timeout=1800)
        ctx.engine(ENGINE, ["--mode", "record-hdr", "--n", 30000 if thorough else 2500, "--out", rec])
        return ctx.read_ndjson(hdr_out)

    ta = guarded("e2e", run_e2e)
    tc = guarded("hdr", run_hdr)
    tb = guarded("aux", run_aux)
    for t in (tc, tb, ta):
        t.join()
    if errors:
        for name, e in errors:
            if not isinstance(e, vlib.ToolError):
                raise e
        raise vlib.ToolError("; ".join(f"{n}: {e}" for n, e in errors))

    aux = results["aux"]
    if "dyn_violated" in aux:
        ctx.violation(f"model-dyn:{aux['dyn_violated'][0]}", "the responder design violates the property when policies change",
                      {"tlc_counterexample": aux["dyn_violated"][1]})

    # ---- header verdicts
    drift = 0
    hs = None
    for r in results["hdr"]:
        if r.get("summary"):
            hs = r
            continue
        case = {"k": "hdr", "len": r["len"], "body": r["body"], "outs": r.get("expected", [])}
        if r["kind"] == "hdr" and r["class"] == "panic":
            ctx.violation(f"header-panic len={len_group(r['len'])}",
                          f"the real header parser panicked ({r['detail']}) on length class {r['len']}, body {' '.join(r['body'])}",
                          {"case": case, "verdict": r})
        elif r["kind"] == "hdr" and r["class"] == "wrong-rid":
            ctx.violation(f"header-wrong-rid len={r['len']} body={' '.join(r['body'])}",
                          f"the real parser returned repository {r['actual']['rid']} for a header that does not name it",
                          {"case": case, "verdict": r})
        elif r["kind"] == "serve" and r["class"] in ("served-other-repository", "data-before-failure"):
            ctx.violation(f"serve-step {r['class']} body={' '.join(r['body'])}",
                          "the real upload-pack step wrote data of a repository other than the one the header names, "
                          "or wrote data although it failed", {"case": case, "verdict": r})
        else:
            drift += 1
    if hs is None:
        raise vlib.ToolError("hdr engine wrote no summary")
    if hs["accepted"] == 0 or hs["rejected"] == 0 or hs["served_ok"] == 0:
        raise vlib.ToolError(f"vacuous header replay: {hs}")

    # ---- cells
    es = None
    cell_drift = []
    n_cells = 0
    for r in results["e2e"]:
        if r.get("summary"):
            es = r
            continue
        n_cells += 1
        case = {"k": "cell", "n": r["n"], "def": r["def"], "pol": {"R1": r["pol"], "R2": "allow"},
                "present": {"R1": r["present"], "R2": True}, "docok": {"R1": r["docok"], "R2": True}, "private": {"R1": r["private"], "R2": False},
                "allow": {"R1": r["allow"], "R2": []}, "dec": r["expected"]}
        cls = r["class"]
        if cls in ("served-although-not-allowed", "repository-present-after-refusal"):
            vis = "absent" if not r["present"] else ("private allow=" + "+".join(r["allow"]) if r["private"] else "public")
            if r["present"] and not r["docok"]:
                vis += " identity-document-unreadable"
            ctx.violation(f"cell {cls}: default={r['def']} policy={r['pol']} repo={vis} requester={r['n']}",
                          f"model: {r['expected']}; real responder emitted {r['events']} upload-pack events "
                          f"({r['transmitted']} pack bytes), requester ok={r['requester_ok']}, has repository={r['has']}",
                          {"case": case, "verdict": r})
        elif cls in ("refused-although-allowed", "served-but-requester-failed"):
            cell_drift.append({k: r[k] for k in ("def", "pol", "present", "docok", "private", "allow", "n", "class", "responder_result", "requester_reason")})
    if es is None:
        raise vlib.ToolError("e2e engine wrote no summary")

    # ---- implementation -> spec: one trace (recorded headers, then everything observed between the nodes)
    trace = os.path.join(ctx.work, "trace.ndjson")
    recorded = ctx.read_ndjson(rec) + ctx.read_ndjson(e2e_trace)
    with open(trace, "w") as f:
        for r in recorded:
            f.write(json.dumps(r, separators=(",", ":")) + "\n")
    ok, info, tres = ctx.validate("TraceServe", "TraceServe_all.cfg", trace, timeout=3000 if thorough else 600,
                                  label="trace validation: Serve invariants + exact conformance on every recorded step")
    trace_drift = False
    if not ok and info.get("violated") in ("FetchExact", "HdrExact"):
        # the implementation left the transcribed model; does it still satisfy the statement?
        trace_drift = True
        ok, info, tres = ctx.validate("TraceServe", "TraceServe.cfg", trace, timeout=3000 if thorough else 600,
                                      label="trace validation: Serve invariants on every recorded step")
    if not ok:
        at = tres.distinct - 1
        bad = recorded[at - 1] if 0 < at <= len(recorded) else None
        ctx.violation(f"recorded {json.dumps(bad, separators=(',', ':'))}",
                      f"a recorded step of the real responder violates {info.get('violated') or 'the trace specification'}",
                      {"record": bad, "tlc": info})
    else:
        ctx.cov["traces_validated_against_impl"] += len(recorded)

    ctx.cov["evaluations"] += hs["evaluations"] + hs["serve_checked"] + n_cells + len(recorded)
    ctx.cov["traces_validated_against_impl"] += hs["evaluations"] + n_cells
    ctx.cov["distinct_nontrivial"] += hs["accepted"] + hs["serve_checked"] + n_cells
    def brief(c):
        if c["k"] == "hdr":
            return {k: c[k] for k in ("k", "len", "body", "outs", "dec")}
        return {"k": "cell", "default": c["def"], "policy": c["pol"]["R1"], "present": c["present"]["R1"],
                "doc_loads": c["docok"]["R1"], "private": c["private"]["R1"], "allow": c["allow"]["R1"], "requester": c["n"], "dec": c["dec"]}
    ctx.cov["samples"] += [brief(c) for c in [hdr[len(hdr) // 3], hdr[-1]] + sel[:3]] + recorded[-3:]
    ctx.cov["exhaustive"] = thorough and not ctx.violations
    ctx.cov["header_cases"] = hs
    ctx.cov["e2e"] = {k: es[k] for k in ("cells", "classes", "served", "refused", "setup_ms", "total_ms", "trace_records")}
    ctx.cov["drift_headers"] = drift
    ctx.cov["drift_cells"] = cell_drift
    ctx.cov["drift_trace"] = trace_drift
    if drift or cell_drift or trace_drift:
        vlib.log("MODEL-DRIFT (not a violation): the implementation answered outside the transcribed model but inside the statement")
    ctx.assumptions += [
        "repository data on a stream is observed through the responder's upload-pack events (every write of upload-pack output to the stream emits one)",
        "git upload-pack itself only reads the repository it is started in",
        "requests are made by the honest client (header forms other than its own are bound through the parser hook, not over the network)",
        "the requester role 'delegate' is a key listed in the identity document that holds no copy of the repository",
    ]
    ctx.cov["fresh_identity"] = fresh_part(ctx, thorough)
    if es["inconclusive"] and not ctx.violations:
        raise vlib.ToolError("inconclusive end-to-end observations: " + "; ".join(es["inconclusive"][:5]))
    served_cells = sum(1 for r in results["e2e"] if not r.get("summary") and r["served"])
    if served_cells == 0 or served_cells == n_cells:
        if not ctx.violations:
            raise vlib.ToolError(f"vacuous decision table on the real nodes: {served_cells} of {n_cells} cells served")
    return ctx.finish(rule=RULE)


def fresh_part(ctx, thorough):
    """Freshness of the identity document the seed decides by (spec/ServeFresh.tla): behaviours of the model --
    the owner edits the visibility and/or commits, the seed pulls, the requester asks the seed -- are executed
    on three real nodes over loopback (engine c12_e2e, one process per behaviour). Gating: after every
    successful pull the document at the seed's canonical refs/rad/id allows nobody the owner's document at that
    time excludes, and the requester is never served when the pulled document excludes it (a stale document
    that is stricter than the owner's is drift). A refusal where the model expects
    service, or a step that fails for reasons of the environment, is inconclusive, not a violation."""
    import subprocess
    from concurrent.futures import ThreadPoolExecutor
    ctx.build("c12_e2e")
    res = ctx.tlc("MCServeFresh", "MCServeFresh_t.cfg" if thorough else "MCServeFresh_q.cfg", workers=1, timeout=900, coverage=True,
                  label="identity freshness design model: FreshIdentity, ServedOnlyIfAllowed (deviation disabled)")
    ctx.tlc_ok(res, "MCServeFresh")
    if res.violated:
        ctx.violation(f"model-fresh:{res.violated}", "the freshness design model violates the invariant", {"tlc": res.error_trace[:80]})
        return {}
    ctx.require_coverage(res, ["Edit", "Commit", "Pull", "Block", "Request"])
    for cfgd, name in (("MCServeFresh_dev.cfg", "id-with-head"), ("MCServeFresh_dev2.cfg", "fail-open")):
        dev = ctx.tlc("MCServeFresh", cfgd, workers=1, timeout=300, coverage=False, count=False,
                      label=f"sanity: deviation {name} must violate ServedOnlyIfAllowed")
        if dev.violated != "ServedOnlyIfAllowed":
            raise vlib.ToolError(f"sanity run: deviation {name} was not rejected by TLC ({dev.violated})")
    cases = [c for c in res.cases if c.get("ops")]
    limit = 240 if thorough else 64
    if len(cases) > limit:
        rnd = random.Random(ctx.seed * 31 + 7)
        # keep every behaviour in which a pull follows an edit without a commit in between (the narrow case)
        def narrow(c):
            seen_edit = False
            for op in c["ops"]:
                if op[0] == "edit":
                    seen_edit = True
                elif op[0] == "commit":
                    seen_edit = False
                elif op[0] == "pull" and seen_edit:
                    return True
            return False
        def blocked_locked(c):
            return ["block"] in c["ops"] and c["ops"][-1] == ["request", "locked"]
        must = [c for c in cases if (narrow(c) and c["expect"] == "refused") or blocked_locked(c)]
        rest = [c for c in cases if c not in must]
        cases = rnd.sample(must, min(len(must), limit // 2)) + rnd.sample(rest, min(len(rest), limit - min(len(must), limit // 2)))

    def one(ic):
        i, c = ic
        out = os.path.join(ctx.work, f"fresh-{i}.json")
        try:
            subprocess.run([ctx.bin("c12_e2e"), "--case", json.dumps({"ops": c["ops"], "expect": c["expect"]}), "--out", out, "--timeout", "60"],
                           cwd=ctx.work, stdout=subprocess.DEVNULL, stderr=subprocess.DEVNULL, timeout=240)
            return json.loads(open(out).readline())
        except Exception as e:      # timeout, crash of the environment: inconclusive
            return {"ops": c["ops"], "expect": c["expect"], "outcome": None, "seed_docs": [], "inconclusive": f"engine: {e}"}

    with ThreadPoolExecutor(max_workers=6) as ex:
        results = list(ex.map(one, enumerate(cases)))
    stats = {"behaviours": len(cases), "conclusive": 0, "inconclusive": 0, "served": 0, "refused": 0, "refused_where_model_serves": 0, "pulls_checked": 0, "locked_requests": 0}
    for r in results:
        # the owner's visibility at each pull, by the model
        odoc, expected = "public", []
        for op in r["ops"]:
            if op[0] == "edit":
                odoc = op[1]
            elif op[0] == "pull":
                expected.append(odoc)
        docs = [d for d in r["seed_docs"] if isinstance(d, str)]
        for k, d in enumerate(docs):
            stats["pulls_checked"] += 1
            perm = {"public": 3, "both": 2, "seed": 1}
            if d != expected[k] and perm.get(d, 9) <= perm.get(expected[k], 0):
                stats["stale_but_stricter"] = stats.get("stale_but_stricter", 0) + 1      # drift: nobody is served who should not be
            elif d != expected[k]:
                ctx.violation(f"fresh-identity stale-after-pull {expected[k]}->{d}",
                              f"after a successful pull the seed's canonical identity document says '{d}', the owner's says '{expected[k]}' (behaviour {json.dumps(r['ops'])})",
                              {"engine": "c12_e2e", "case": {"ops": r["ops"], "expect": r["expect"]}, "observed": r})
        if r["inconclusive"] or r["outcome"] is None:
            stats["inconclusive"] += 1
            continue
        stats["conclusive"] += 1
        stats[r["outcome"]] += 1
        stats["locked_requests"] += 1 if r["ops"][-1] == ["request", "locked"] else 0
        if r["outcome"] == "served" and r["expect"] == "refused":
            blocked = ["block"] in r["ops"]
            ctx.violation("fresh-identity served-blocked-repository" + ("-under-lock" if r["ops"][-1] == ["request", "locked"] else "") if blocked else "fresh-identity served-to-excluded-peer",
                          (f"the seed served a repository it has blocked (behaviour {json.dumps(r['ops'])})" if blocked else
                           f"the seed served the repository to a peer its last pulled identity document excludes (behaviour {json.dumps(r['ops'])})"),
                          {"engine": "c12_e2e", "case": {"ops": r["ops"], "expect": r["expect"]}, "observed": r})
        elif r["outcome"] == "refused" and r["expect"] == "served":
            stats["refused_where_model_serves"] += 1
    if stats["conclusive"] == 0 or stats["pulls_checked"] == 0:
        raise vlib.ToolError(f"freshness part: no conclusive behaviour on the real nodes ({[r['inconclusive'] for r in results[:3]]})")
    if not any(["block"] in r["ops"] and r["ops"][-1] == ["request", "locked"] and not r["inconclusive"] for r in results):
        if not ctx.violations:
            raise vlib.ToolError("vacuous freshness part: no conclusive request under a locked policy database for a blocked repository")
    if stats["served"] == 0 or stats["refused"] == 0:
        if not ctx.violations:
            raise vlib.ToolError(f"vacuous freshness part: served={stats['served']} refused={stats['refused']}")
    ctx.cov["traces_validated_against_impl"] += stats["conclusive"]
    ctx.cov["evaluations"] += stats["pulls_checked"] + stats["conclusive"]
    return stats


def c13_part(ctx):
    """Header part of C13: every header class of the model and seeded random / mutated header bytes through the real
    pktline parser under guard. Records ctx.violation(signature = header class) for every panic. Returns a summary dict."""
    thorough = ctx.tier == "thorough"
    ctx.build(ENGINE)
    res = ctx.tlc("MCServe", "MCServe_t.cfg" if thorough else "MCServe_q.cfg", workers=4, timeout=2400 if thorough else 600,
                  coverage=False, label="C13 header part: every header class has a non-crash outcome (C13_NoCrash)")
    ctx.tlc_ok(res, "MCServe")
    if res.violated:
        ctx.violation(f"model:{res.violated}", "the header reader design has a crashing outcome", {"tlc_counterexample": res.error_trace[:80]})
        return {}
    hdr = [c for c in res.cases if c["k"] == "hdr"]
    if {c["len"] for c in hdr} != LEN_CLASSES:
        raise vlib.ToolError("vacuous header case set")
    out = os.path.join(ctx.work, "c13-hdr.ndjson")
    ctx.engine(ENGINE, ["--mode", "hdr", "--cases", ctx.write_cases(hdr, "c13-hdr-cases.ndjson"), "--out", out])
    hs = None
    for r in ctx.read_ndjson(out):
        if r.get("summary"):
            hs = r
        elif r.get("class") == "panic":
            ctx.violation(f"pktline-header len={len_group(r['len'])}",
                          f"git request header (length class {r['len']}, body {' '.join(r['body'])}) panics the worker: {r['detail']}",
                          {"engine": ENGINE, "case": {"k": "hdr", "len": r["len"], "body": r["body"], "outs": r["expected"]}, "verdict": r})
    fz = os.path.join(ctx.work, "c13-fuzz.ndjson")
    n = 500000 if thorough else 20000
    ctx.engine(ENGINE, ["--mode", "fuzz", "--n", n, "--out", fz], timeout=1800)
    fs = None
    for r in ctx.read_ndjson(fz):
        if r.get("summary"):
            fs = r
        else:
            ctx.violation(f"pktline-header len={r['class']}",
                          f"git request header bytes {r['bytes']} ({r['len']} bytes) panic the worker: {r['panic']}",
                          {"engine": ENGINE, "fuzz": r})
    if hs is None or fs is None:
        raise vlib.ToolError("header engines wrote no summary")
    ctx.cov["evaluations"] += hs["evaluations"] + fs["evaluations"]
    ctx.cov["traces_validated_against_impl"] += hs["evaluations"]
    ctx.cov["distinct_nontrivial"] += hs["accepted"] + sum(1 for v in fs["classes"].values() if v["ok"] + v["err"] + v["panic"] > 0)
    ctx.cov["pktline_header"] = {"model_cases": hs, "random": fs}
    return {"model_cases": hs, "random": fs}


def replay(ctx, path):
    ctx.build(ENGINE)
    d = json.load(open(path))["replay"]
    case = d.get("case")
    if d.get("engine") == "c12_e2e":
        ctx.build("c12_e2e")
        out = os.path.join(ctx.work, "fresh.json")
        ctx.engine("c12_e2e", ["--case", json.dumps(case), "--out", out], timeout=300)
        print("model:", json.dumps(case))
        print("real: ", open(out).read())
        ctx.cleanup()
        return 0
    if case is None:
        print(json.dumps(d, indent=1))
        ctx.cleanup()
        return 0
    p = ctx.write_cases([case], "one.ndjson")
    out = os.path.join(ctx.work, "o.ndjson")
    print("model:", json.dumps(case))
    if case["k"] == "hdr":
        ctx.engine(ENGINE, ["--mode", "hdr", "--cases", p, "--out", out, "--serve-sample", 1, "--dir", os.path.join(ctx.work, "serve")])
    else:
        ctx.engine(ENGINE, ["--mode", "e2e", "--cases", p, "--out", out, "--trace", os.path.join(ctx.work, "t.ndjson"),
                            "--dir", os.path.join(ctx.work, "nodes"), "--steps", 0], timeout=600)
    for r in ctx.read_ndjson(out):
        print("real: ", json.dumps(r))
    ctx.cleanup()
    return 0
