"""C22 CRDT merges are a semilattice; last-writer-wins observers (spec/Crdt.tla; engine c22_crdt)."""
import json
import os
import vlib

ENGINE = "c22_crdt"

RULE = ("laws: every triple of the bounded carrier of each of the 11 types is a TLC state (associativity, commutativity, "
        "idempotence, closure as invariants); cases = every PAIR with the model's join, rebuilt as real radicle-crdt values "
        "through the public API; the real join is compared with the model's and the three laws are re-checked natively on "
        "every pair / every triple; a pair is non-trivial when the join differs from both arguments (counted by the engine). "
        "ops: every set of <= MaxOps insert/remove operations on an LWWMap replica (2 keys, clocks 0..2, values 0..1) with a "
        "delivery order; replayed in several orders (and duplicated) on the real LWWMap and LWWSet, observers compared with "
        "the declarative ObserveSpec. plus random three-replica runs over larger domains validated by TraceCrdt")


def sig_of(r):
    if r.get("law") in ("observer", "order independence"):
        return f"{r['ty']} {r['law']} ops={json.dumps(r['ops'], separators=(',', ':'))}"
    return f"{r['ty']} {r['law']} a={json.dumps(r.get('a'), separators=(',', ':'))} b={json.dumps(r.get('b'), separators=(',', ':'))} c={json.dumps(r.get('c'), separators=(',', ':'))}"


def run(ctx):
    thorough = ctx.tier == "thorough"
    ctx.build(ENGINE)
    t = "t" if thorough else "q"
    dev = ctx.tlc("MCCrdt", "MCCrdt_dev.cfg", workers=2, timeout=300, coverage=False, count=False,
                  label="sanity: removal winning ties must violate the LWW observer statement")
    if dev.violated != "Lww":
        raise vlib.ToolError("sanity run: remove-wins-ties variant was not rejected by TLC")
    cases = []
    for cfg, lab in ((f"MCCrdt_{t}.cfg", "laws: all triples of the bounded carriers of 11 CRDT types"),
                     (f"MCCrdt_{t}o.cfg", "ops: one LWWMap replica, all sets of operations, observer = ObserveSpec")):
        res = ctx.tlc("MCCrdt", cfg, workers=8 if thorough else 6, timeout=3000 if thorough else 600, coverage=False, heap="6g", label=lab)
        ctx.tlc_ok(res, cfg)
        if res.violated:
            ctx.violation(f"model:{cfg}:{res.violated}", "a transcribed merge violates the law / observer statement in the bounded model",
                          {"tlc_counterexample": res.error_trace[:60]})
            return ctx.finish(rule=RULE)
        if not res.cases:
            raise vlib.ToolError(f"{cfg}: no cases emitted")
        cases += res.cases
    types = {c["ty"] for c in cases}
    if len(types) != 12:
        raise vlib.ToolError(f"vacuous case set: types {sorted(types)}")
    path = ctx.write_cases(cases)
    out = os.path.join(ctx.work, "verdicts.ndjson")
    ctx.engine(ENGINE, ["--mode", "replay", "--cases", path, "--out", out])
    recs = ctx.read_ndjson(out)
    summary = [r for r in recs if r.get("summary")][0]
    for r in recs:
        if r.get("summary") or r.get("drift"):
            continue
        ctx.violation(sig_of(r), f"real radicle-crdt {r['ty']}: {r['law']} fails: {r.get('detail', '')[:300]}", r)
    if summary["ops_equal_clock_conflicts"] == 0 or summary["pairs_nontrivial"] == 0:
        raise vlib.ToolError("vacuous replay: no equal-clock conflict / no non-trivial join")
    ctx.cov["evaluations"] += summary["pairs"] + summary["triples"] + summary["ops_cases"]
    ctx.cov["traces_validated_against_impl"] += len(cases)
    ctx.cov["distinct_nontrivial"] += summary["pairs_nontrivial"] + summary["ops_equal_clock_conflicts"]
    ctx.cov["replay_breakdown"] = {k: summary[k] for k in ("pairs", "triples", "ops_cases", "ops_equal_clock_conflicts", "pairs_nontrivial")}
    ctx.cov["drift_replay"] = summary["drift"]
    ctx.cov["drift_samples"] = [r for r in recs if r.get("drift")][:3]
    if summary["drift"]:
        vlib.log("MODEL-DRIFT (not a violation): real joins differ from the transcribed Join while satisfying the laws")
    ctx.cov["samples"] += [c for c in cases if c["ty"] == "lwwmap" and c["a"] and c["b"]][100:102] + [c for c in cases if c["ty"] == "ops" and len(c["path"]) >= 3][:1]
    ctx.cov["exhaustive"] = True
    rec = os.path.join(ctx.work, "rec.ndjson")
    n, steps = (4000, 50) if thorough else (150, 40)
    ctx.engine(ENGINE, ["--mode", "record", "--n", n, "--steps", steps, "--keys", 5 if thorough else 4, "--clocks", 6, "--vals", 8, "--out", rec])
    recorded = ctx.read_ndjson(rec)
    ok, info, tres = ctx.validate("TraceCrdt", "TraceCrdt.cfg", rec, timeout=3000 if thorough else 600)
    if not ok:
        at = tres.distinct
        bad = recorded[at - 1] if 0 < at <= len(recorded) else None
        start = max(i for i in range(at) if recorded[i]["op"] == "reset") if bad else 0
        hist = recorded[start:at]
        ctx.violation("recorded " + json.dumps([{k: v for k, v in r.items() if k != "obs"} for r in hist], separators=(",", ":"))[:500],
                      "observers of a real replica differ from the model after this operation sequence", {"history": hist, "tlc": info})
    else:
        ctx.cov["traces_validated_against_impl"] += sum(1 for r in recorded if r["op"] == "reset")
        ctx.cov["evaluations"] += len(recorded)
        ctx.cov["recorded_steps"] = len(recorded)
        ctx.cov["samples"] += recorded[1:3]
    ctx.assumptions += ["clocks are totally ordered (u64 / Lamport); values under an LWW structure are Max<u8> (their own join decides equal-clock insertions)",
                        "Immutable (panics by design on unequal merge) is not among the CRDTs of the statement",
                        "structures are compared with derived PartialEq and through every public observer"]
    return ctx.finish(rule=RULE)


def replay(ctx, path):
    ctx.build(ENGINE)
    d = json.load(open(path))["replay"]
    if "history" in d:
        p = ctx.write_cases(d["history"], "one.ndjson")
        ok, info, _ = ctx.validate("TraceCrdt", "TraceCrdt.cfg", p)
        print("recorded history is", "accepted" if ok else f"rejected: {info.get('rejected')}")
        ctx.cleanup()
        return 0
    print(json.dumps(d))
    if "ops" in d:
        case = {"ty": "ops", "path": d["ops"], "m": [], "obs": d.get("expected", [])}
    else:
        case = {"ty": d["ty"], "a": d["a"], "b": d["b"], "j": d["a"]}
    cp = ctx.write_cases([case], "c.ndjson")
    out = os.path.join(ctx.work, "o.ndjson")
    ctx.engine(ENGINE, ["--mode", "replay", "--cases", cp, "--out", out])
    for r in ctx.read_ndjson(out):
        print("real code:", json.dumps(r))
    ctx.cleanup()
    return 0
