"""C10 Gossip is authenticated, fresh and never echoed back (spec/Gossip.tla, spec/TraceGossip.tla)."""
import sys, os
sys.path.insert(0, os.path.dirname(__file__))
import gossip_common as g

RULE = ("scripts = one behaviour per reachable state of the bounded design model MCGossip (sampled when larger than the tier's budget) "
        "+ scripted regression scenarios + seeded random scenarios beyond the model's constants; each executed on the real Service, "
        "every step's observations checked by TLC against TraceGossip (clauses C10_Store, C10_RelayUnaccepted, C10_EchoToAnnouncer, "
        "C10_EchoToDeliverer); non-trivial = runs in which the node relayed or replayed at least one foreign announcement")


def run(ctx):
    thorough = ctx.tier == "thorough"
    viols, stats = g.run_gossip(ctx, {"C10_"}, thorough)
    g.report(ctx, viols)
    ctx.cov["distinct_nontrivial"] = stats.get("runs", 0)
    ctx.cov["exhaustive"] = not stats.get("model_sampled", True)
    ctx.assumptions += ["Ed25519 unforgeable (forged = signed by another key)", "the test double Peer drives the same Service code as the runtime",
                        "subscription replay is not subject to the no-echo-to-deliverer clause (only to the no-echo-to-author clause)"]
    return ctx.finish(rule=RULE, extra={"gossip": stats})


def replay(ctx, path):
    return g.replay(ctx, path)
