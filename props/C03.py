"""C03 Canonical branch head is backed by the delegate threshold (spec/Canonical.tla)."""
import json
import os
import vlib

ENGINE = "c03_canonical"


def sig_of(rec):
    return f"quorum par={json.dumps(rec['par'],separators=(',',':'))} tips={json.dumps(rec['tips'],separators=(',',':'))} thr={rec['thr']} -> {rec['actual']}"


def run(ctx):
    thorough = ctx.tier == "thorough"
    ctx.build(ENGINE)
    # 1. Design level: the transcribed algorithm satisfies the statement on every reachable state of
    #    the bounded model; the same run emits one case per state for the replay.
    cfg = "MCCanonical_t.cfg" if thorough else "MCCanonical_q.cfg"
    res = ctx.tlc("MCCanonical", cfg, workers=8, timeout=3000 if thorough else 600, coverage=False,
                  label="exhaustive: all graphs x all tip assignments; invariants AlgSound, HeadIsSupportedTip, NoSupportNoHead, DivergenceIsError")
    ctx.tlc_ok(res, "MCCanonical")
    if res.violated:
        ctx.violation(f"model:{res.violated}", "the transcribed quorum algorithm violates the statement in the bounded model",
                      {"tlc_counterexample": res.error_trace[:80]})
        return ctx.finish(rule=RULE)
    if not res.cases:
        raise vlib.ToolError("TLC emitted no cases")
    # vacuity guards: some states must have a head, some divergence, some nothing
    heads = sum(1 for c in res.cases for e in c["exp"] if e > 0)
    nones = sum(1 for c in res.cases for e in c["exp"] if e == 0)
    if heads == 0 or nones == 0:
        raise vlib.ToolError("vacuous case set")
    # 2. The deviation (pair counting, the original code) must be rejected by TLC: shows the
    #    invariant is not vacuous and documents the fixed finding.
    dev = ctx.tlc("MCCanonical", "MCCanonical_dev.cfg", workers=4, timeout=300, coverage=False, count=False,
                  label="sanity: pair-counting deviation must violate AlgSound")
    if dev.violated != "AlgSound":
        raise vlib.ToolError("sanity run: pair-counting model was not rejected by TLC")
    # 3. spec -> implementation: replay every case against the real Canonical::quorum
    cases = ctx.write_cases(res.cases)
    out = os.path.join(ctx.work, "verdicts.ndjson")
    ctx.engine(ENGINE, ["--mode", "replay", "--cases", cases, "--out", out, "--threads", 12], timeout=7200)
    recs = ctx.read_ndjson(out)
    summary = [r for r in recs if r.get("summary")][0]
    drift = 0
    for r in recs:
        if r.get("summary"):
            continue
        if not r["ok"]:
            ctx.violation(sig_of(r), f"real quorum returned {r['actual']} ({r['detail']}); statement allows head {r['expected_head_or_none']} or no head", r)
        elif r.get("drift"):
            drift += 1
    ctx.cov["evaluations"] += summary["evaluations"]
    ctx.cov["traces_validated_against_impl"] += len(res.cases)
    ctx.cov["distinct_nontrivial"] += sum(1 for c in res.cases if any(e > 0 for e in c["exp"]) and len(set(t for t in c["tips"] if t)) > 1)
    ctx.cov["samples"] += res.cases[1000:1003] if len(res.cases) > 1003 else res.cases[:3]
    ctx.cov["exhaustive"] = True
    # 4. implementation -> spec: random larger graphs recorded from the real code, validated by TLC
    rec = os.path.join(ctx.work, "rec.ndjson")
    n = 20000 if thorough else 1500
    ctx.engine(ENGINE, ["--mode", "record", "--n", n, "--out", rec, "--commits", 10 if thorough else 9, "--delegates", 7 if thorough else 6])
    ok, info, tres = ctx.validate("TraceCanonical", "TraceCanonical.cfg", rec, timeout=3000 if thorough else 600)
    recorded = ctx.read_ndjson(rec)
    if not ok:
        at = tres.distinct - 1  # index of the offending record (1-based) = diameter-1
        bad = recorded[at - 1] if 0 < at <= len(recorded) else None
        ctx.violation(f"recorded quorum {json.dumps(bad, separators=(',',':'))}",
                      "recorded answer of the real quorum is not permitted by Canonical!Allowed", {"record": bad, "tlc": info})
    else:
        ctx.cov["traces_validated_against_impl"] += len(recorded)
        ctx.cov["evaluations"] += sum(len(r["res"]) for r in recorded)
        ctx.cov["samples"] += recorded[:2]
    # informational: does the implementation still follow the transcribed algorithm?
    ok2, info2, _ = ctx.validate("TraceCanonical", "TraceCanonical_alg.cfg", rec, timeout=3000 if thorough else 600, label="drift (informational)")
    ctx.cov["drift_replay"] = summary["drift"]
    ctx.cov["drift_recorded_trace_rejected"] = (not ok2)
    if summary["drift"] or not ok2:
        vlib.log("MODEL-DRIFT (not a violation): real quorum answers outside the transcribed algorithm's outcome set")
    ctx.assumptions += ["git2 merge_base is correct", "commit graphs with <= 2 parents per commit",
                        "object-id order of candidates is arbitrary (modelled as all permutations)"]
    return ctx.finish(rule=RULE)


RULE = ("cases = every reachable state (graph, tips) of MCCanonical, each evaluated for every threshold against the real "
        "Canonical::reference + quorum on real commits and references; non-trivial = at least two different tips and a head "
        "expected for some threshold; plus random larger graphs recorded from the implementation and validated by TLC")


def replay(ctx, path):
    ctx.build(ENGINE)
    d = json.load(open(path))["replay"]
    rec = d.get("record") or d
    if "res" in rec:
        case = {"par": rec["par"], "tips": rec["tips"]}
    else:
        case = {"par": rec["par"], "tips": rec["tips"]}
    p = ctx.write_cases([dict(case, res=[0] * len(case["tips"]))], "one.ndjson")
    # evaluate with TLC what is expected, then the real code
    import subprocess
    print(json.dumps(case))
    out = os.path.join(ctx.work, "o.ndjson")
    n = len(case["tips"])
    c = dict(case, exp=[0] * n, alg=[[0]] * n)
    cp = ctx.write_cases([c], "c.ndjson")
    ctx.engine(ENGINE, ["--mode", "replay", "--cases", cp, "--out", out, "--threads", 1])
    for r in ctx.read_ndjson(out):
        print(json.dumps(r))
    ctx.cleanup()
    return 0
