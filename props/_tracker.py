"""Shared driver of C07 and C08 (spec/Tracker.tla, engines c07_authz / c08_merge).

One family = one bounded instance of MCTracker (a .cfg): TLC checks the action properties
(StmtIssue / StmtPatch / C08Step / RejectedNoEffect ...) on every transition and prints one CASE per
distinct state (op log, state, fan-out). The engine replays every case on the real Issue / Patch.
Steps on which code and model disagree are handed to TraceTracker, which decides whether the
*statement* is broken (VIOLATION) or only the transcription differs (drift, logged).
"""
import copy
import json
import os
import re
from concurrent.futures import ThreadPoolExecutor

import vlib

SEQKEYS = ("comments", "revs", "rcomments", "reviews", "vcomments")
C1 = {"JAVA_TOOL_OPTIONS": "-XX:TieredStopAtLevel=1"}   # short TLC runs: skip the optimising JIT


def sub_ctx(ctx, name):
    """A view of ctx with its own scratch directory and counters (for concurrent TLC runs)."""
    c = copy.copy(ctx)
    c.work = os.path.join(ctx.work, name)
    os.makedirs(c.work, exist_ok=True)
    c.cov = {"states": 0, "transitions": 0, "tlc_runs": []}
    return c


def dev_subset(families):
    """Developer knob (mutation trials): VERIF_TRACKER_FAMILIES=issue,meta restricts the instances."""
    want = os.environ.get("VERIF_TRACKER_FAMILIES")
    return [f for f in families if f in want.split(",")] if want else families


def run_families(ctx, families, tier, workers, timeout):
    """TLC on every family concurrently. Returns {family: TlcResult}."""
    def one(fam):
        c = sub_ctx(ctx, "tlc-" + fam)
        env = dict(C1) if tier == "quick" else {}
        res = c.tlc("MCTracker", f"MCTracker_{fam}_{'t' if tier == 'thorough' else 'q'}.cfg", workers=workers,
                    timeout=timeout, coverage=False, env=env, heap="6g" if tier == "thorough" else "4g",
                    label=f"{fam}: exhaustive over the bounded instance; C07_Issue C07_Patch C07_PatchExtra C08_Step "
                          f"RejectedNoEffect Frame on every transition, TypeOK IssueWF PatchWF C08_Merged on every state")
        # keep memory bounded: the emitted cases go to a file, the raw output is dropped
        res.ncases = len(res.cases)
        res.cases_path = ctx.write_cases(res.cases, f"cases-{fam}.ndjson") if res.cases else None
        res.cases = None
        res.out = res.out[-4000:]
        return fam, res, c.cov
    out = {}
    with ThreadPoolExecutor(max_workers=2 if tier == "thorough" else len(families)) as ex:
        for fam, res, cov in ex.map(one, families):
            out[fam] = res
            ctx.cov["states"] += res.distinct
            ctx.cov["transitions"] += res.states
            ctx.cov["tlc_runs"] += cov["tlc_runs"]
    return out


def op_str(op):
    return "[" + ",".join(str(x) for x in op) + "]"


def log_str(log):
    return " ".join(op_str(e[0]) for e in log)


def role(cfg, op):
    a, d = op[0], op[1]
    if 1 <= d <= len(cfg["delegates"]) and a in cfg["delegates"][d - 1]:
        return "delegate"
    return "non-delegate"


def signature(rec, cfg):
    if rec["type"] == "fan":
        op = rec["op"]
        return f"{op[2]} by {role(cfg, op)} op={op_str(op)} after {log_str(rec['log'])}"
    return f"state after {log_str(rec['log'])}"


def describe(rec):
    if rec["type"] == "fan":
        return (f"real result {'Ok' if rec['actual_res'] else 'Err(' + str(rec.get('err')) + ')'} state {json.dumps(rec['actual'], separators=(',', ':'))}; "
                f"model predicted res={rec['model_res']} state {json.dumps(rec['expected'], separators=(',', ':'))}")
    return (f"real state {json.dumps(rec['actual'], separators=(',', ':'))}; model state "
            f"{json.dumps(rec['expected'], separators=(',', ':'))}")


def classify(ctx, recs, cfg, prop_names, label):
    """Mismatching steps -> (violations, drift). A step is a violation when the statement
    (action properties of TraceTracker.cfg) rejects it; otherwise it is drift of the transcription."""
    pending = [r for r in recs if r.get("trace")]
    violations = []
    no_trace = [r for r in recs if not r.get("trace")]
    # a creation that differs from the model cannot be judged by a step property: report it
    violations += [(r, "creation") for r in no_trace]
    rounds = 0
    accepted = False
    while pending and rounds < 6:
        rounds += 1
        path = os.path.join(ctx.work, f"mismatch-{label}-{rounds}.ndjson")
        offsets = []
        with open(path, "w") as f:
            f.write(json.dumps({"ev": "cfg", "cfg": cfg}) + "\n")
            n = 1
            for r in pending:
                offsets.append(n)
                for ev in r["trace"]:
                    f.write(json.dumps(ev, separators=(",", ":")) + "\n")
                    n += 1
        ok, info, res = ctx.validate("TraceTracker", "TraceTracker.cfg", path, timeout=900, env=C1,
                                     label=f"statement check of {len(pending)} steps on which code and model differ")
        if ok:
            accepted = True
            break
        # position of the offending record: the behaviour was followed up to state `distinct`
        pos = max(res.distinct - 1, 1)
        idx = max(i for i, o in enumerate(offsets) if o <= pos) if offsets else 0
        bad = pending.pop(idx)
        violations.append((bad, str(info.get("violated") or info.get("rejected"))))
    if pending and not accepted:
        # the cap on TLC rounds was reached with violations already reported: the rest is unjudged
        vlib.log(f"{label}: {len(pending)} further differing steps were not classified (violations already reported)")
        return violations, []
    return violations, list(pending)


def replay_family(ctx, engine, fam, res, threads, stats):
    """Replay all cases of a family; returns (mismatch records, summary)."""
    if not res.cases_path:
        raise vlib.ToolError(f"{fam}: TLC emitted no cases")
    cases = res.cases_path
    out = os.path.join(ctx.work, f"verdicts-{fam}.ndjson")
    ctx.engine(engine, ["--mode", "replay", "--cases", cases, "--out", out, "--threads", threads], timeout=3000)
    os.remove(cases)
    recs = ctx.read_ndjson(out)
    summary = [r for r in recs if r.get("summary")][0]
    recs = [r for r in recs if not r.get("summary")]
    stats[fam] = {k: summary[k] for k in summary if k not in ("summary", "cfg", "kinds")}
    stats[fam]["kinds"] = len(summary["kinds"])
    return recs, summary


def vacuity(fam, summary, need_merged=False):
    if summary["fan"] == 0 or summary["fan_rejected"] == 0 or summary["fan_ok_changed"] == 0:
        raise vlib.ToolError(f"{fam}: vacuous fan-out {summary}")
    if summary["nondelegate_protected"] == 0:
        raise vlib.ToolError(f"{fam}: no protected action by a non-delegate was exercised")
    if need_merged and (summary["merged_states"] == 0 or summary["conflict_states"] == 0):
        raise vlib.ToolError(f"{fam}: no merged / conflicting state reached")


def dev_runs(ctx, devs):
    """Deliberately wrong variants must be rejected by TLC (the properties are not vacuous)."""
    def one(item):
        name, expect = item
        c = sub_ctx(ctx, "dev-" + name)
        res = c.tlc("MCTracker", f"MCTracker_dev_{name}.cfg", workers=2, timeout=600, coverage=False, count=False, env=dict(C1),
                    label=f"sanity: variant '{name}' must violate {expect}")
        return name, expect, res, c.cov
    with ThreadPoolExecutor(max_workers=len(devs)) as ex:
        for name, expect, res, cov in ex.map(one, devs.items()):
            ctx.cov["tlc_runs"] += cov["tlc_runs"]
            if res.violated != expect:
                raise vlib.ToolError(f"sanity run dev_{name}: expected TLC to report {expect}, got {res.violated!r} rc={res.rc}\n{res.out[-1500:]}")


def model_violation(ctx, fam, res):
    ctx.violation(f"model:{fam}:{res.violated}", "the transcribed rules violate the statement in the bounded model "
                  "(design-level counterexample; see tlc_counterexample)", {"tlc_counterexample": res.error_trace[:120]})


def record_and_validate(ctx, engine, n, steps, what):
    """Random histories through real storage + the real cob::get, validated by TraceTracker.
    Runs on its own sub-context (may be called from a worker thread); returns a dict that
    `merge_recorded` folds into the main context."""
    c = sub_ctx(ctx, "rec-" + engine)
    c.cov.update({"traces_validated_against_impl": 0, "evaluations": 0, "samples": []})
    rec = os.path.join(c.work, f"rec-{engine}.ndjson")
    c.engine(engine, ["--mode", "record", "--n", n, "--steps", steps, "--out", rec], timeout=3000)
    events = c.read_ndjson(rec)
    end = events[-1]
    if end.get("ev") != "end" or end["steps"] == 0 or end["rejected"] == 0:
        raise vlib.ToolError(f"recorder produced a vacuous trace: {end}")
    cfg = events[0]["cfg"]
    out = {"end": end, "strict_rejected": None, "cov": c.cov, "violation": None}
    # strict: statements of C07 / C08 *and* step-by-step agreement with the transcribed evaluation
    ok, info, res = c.validate("TraceTracker", "TraceTracker_strict.cfg", rec, timeout=3000, env=C1 if n < 100 else None,
                               label=f"{what}: every recorded step against the statements and the transcribed evaluation")
    if not ok:
        out["strict_rejected"] = str(info.get("violated") or info.get("rejected"))
        # gating: only the statements
        ok, info, res = c.validate("TraceTracker", "TraceTracker.cfg", rec, timeout=3000, env=C1 if n < 100 else None,
                                   label=f"{what}: every recorded step against the statements of C07 / C08")
    if not ok:
        pos = max(res.distinct - 1, 1)
        bad = events[pos - 1] if pos - 1 < len(events) else None
        resets = [i for i in range(min(pos, len(events))) if events[i].get("ev") == "reset"]
        run = events[(resets[-1] if resets else 0):pos]
        why = info.get("violated") or info.get("rejected")
        sig = f"recorded {op_str(bad['op']) if bad and bad.get('op') else '?'} {why}"
        out["violation"] = (sig, f"a step of the real evaluation breaks {why}: {json.dumps(bad, separators=(',', ':'))[:400]}",
                            {"type": "recorded", "cfg": cfg, "trace": run, "tlc": info})
        return out
    c.cov["traces_validated_against_impl"] += end["runs"]
    c.cov["evaluations"] += end["steps"]
    c.cov["samples"] += [{"recorded_op": e["op"], "ok": e["res"], "obj": e["obj"]} for e in events if e.get("ev") == "op"][:2]
    return out


def merge_recorded(ctx, out):
    for k in ("traces_validated_against_impl", "evaluations"):
        ctx.cov[k] += out["cov"].get(k, 0)
    ctx.cov["samples"] += out["cov"].get("samples", [])
    ctx.cov["tlc_runs"] += out["cov"]["tlc_runs"]
    if out["violation"]:
        ctx.violation(*out["violation"])
    if out["strict_rejected"] and not out["violation"]:
        vlib.log(f"MODEL-DRIFT (not a violation): recorded steps differ from the transcription ({out['strict_rejected']}) but satisfy the statements")
    return out["end"], out["strict_rejected"]


def replay_file(ctx, engine, path):
    """./check Cnn --replay file: re-run the single behaviour against the current tree."""
    ctx.build(engine)
    d = json.load(open(path))["replay"]
    if d.get("type") == "recorded" or "tlc_counterexample" in d:
        print(json.dumps(d, indent=1)[:6000])
        if d.get("type") == "recorded":
            tr = os.path.join(ctx.work, "one.ndjson")
            with open(tr, "w") as f:
                f.write(json.dumps({"ev": "cfg", "cfg": d["cfg"]}) + "\n")
                for ev in d["trace"]:
                    f.write(json.dumps(ev) + "\n")
            ok, info, _ = ctx.validate("TraceTracker", "TraceTracker.cfg", tr, env=C1)
            print("statement check of the recorded run:", "accepted" if ok else f"rejected: {info.get('violated') or info.get('rejected')}")
        ctx.cleanup()
        return 0
    cfg = d["cfg"]
    case = {"obj": d["obj"], "log": d["log"], "heads": d["heads"]}
    if d["type"] == "fan":
        exp = d["expected"]
        delta = {}
        if isinstance(exp, dict):
            for k, v in exp.items():
                delta[k] = [[i + 1, e] for i, e in enumerate(v)] if k in SEQKEYS else v
        case["st"] = d["pre"]
        case["fan"] = json.dumps([[d["op"], d["model_res"], delta]])
    else:
        case["st"] = d["expected"]
        case["fan"] = "[]"
    p = ctx.write_cases([{"cfg": cfg}, case], "one.ndjson")
    out = os.path.join(ctx.work, "o.ndjson")
    ctx.engine(engine, ["--mode", "replay", "--cases", p, "--out", out, "--threads", 1])
    recs = ctx.read_ndjson(out)
    bad = [r for r in recs if not r.get("summary")]
    print("behaviour:", log_str(d["log"]), "| op:", d.get("op"))
    if not bad:
        print("the current tree agrees with the model on this behaviour")
    for r in bad:
        print("model :", json.dumps(r["expected"], separators=(",", ":")))
        print("real  :", json.dumps(r["actual"], separators=(",", ":")))
    ctx.cleanup()
    return 0
