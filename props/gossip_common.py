"""Shared driver for the gossip checks (C10, C11, C13 service part, C29).

Scripts (abstract operation sequences) come from two sources:
  * behaviours of the bounded design model spec/Gossip.tla emitted by TLC (one per reachable state)
  * a seeded random generator that goes beyond the model's constants (more peers, announcers and
    repositories, longer sequences, boundary inputs: timestamp 0, inverted ranges, forged
    signatures, backward clock, visibility changes, restarts).
Every script is executed against the real Service by harness/src/bin/c10_gossip.rs, which logs
what the node did after every step; the log is validated by TLC against spec/TraceGossip.tla, which
evaluates the clauses of C10/C11/C13/C29 at every step and prints the violated ones.
"""
import json
import os
import random
import subprocess
import vlib

ENGINE = "c10_gossip"
MAXT = 2_000_000_000
ZEROT = -1_000_000_000

MODEL_REPOS = [
    {"stored": True, "seeded": True, "private": False, "allow": [], "delegates": [0]},
    {"stored": True, "seeded": True, "private": True, "allow": [1], "delegates": [0]},
    {"stored": False, "seeded": False, "private": True, "allow": [], "delegates": [3]},
]


def ms(t):
    """model time (ms since start; 0 = the zero timestamp) -> script time"""
    return ZEROT if t == 0 else t


def model_to_script(i, ops):
    out = []
    for op in ops:
        n = op[0]
        if n == "ann":
            variant = sum(1 << (r - 1) for r in op[7]) if op[3] == "inv" else 1
            out.append(["ann", op[1], op[2], op[3], op[4], ms(op[5]), op[6], variant])
        elif n == "sub":
            out.append(["sub", op[1], sorted(op[2]), ZEROT, MAXT])
        elif n == "vis":
            out.append(["vis", op[1], op[2], sorted(op[3])])
        else:
            out.append(list(op))
    return {"run": f"m{i}", "peers": 2, "nodes": 3, "repos": MODEL_REPOS, "ops": out}


def random_script(rng, i, nops):
    npeers = rng.randint(2, 4)
    nothers = rng.randint(1, 2)
    nnodes = npeers + nothers
    nrepos = rng.randint(2, 4)
    repos = []
    for r in range(nrepos):
        stored = rng.random() < 0.65
        private = rng.random() < 0.5
        allow = sorted(rng.sample(range(1, nnodes + 1), rng.randint(0, 2))) if private else []
        delegates = [0] if stored and rng.random() < 0.7 else [rng.randint(1, nnodes)]
        repos.append({"stored": stored, "seeded": stored or rng.random() < 0.5, "private": private,
                      "allow": allow, "delegates": delegates})
    persistent = sorted(rng.sample(range(1, npeers + 1), rng.randint(0, 1))) if rng.random() < 0.3 else []
    ops = []
    clock = 0
    conn = set()
    priv_now = [r["private"] for r in repos]
    sent = []          # announcements created so far (to be re-delivered by other peers)
    last_ts = {}
    for _ in range(nops):
        x = rng.random()
        if persistent and rng.random() < 0.05:
            ops.append(["attempted", persistent[0]])
        if x < 0.12 or not conn:
            p = rng.randint(1, npeers)
            ops.append(["connect", p])
            conn.add(p)
            if rng.random() < 0.8:   # well-behaved peers introduce themselves
                ops.append(["ann", p, p, "node", 0, clock + rng.randint(1, 50), True, 0])
        elif x < 0.17:
            p = rng.choice(sorted(conn))
            ops.append(["disconnect", p])
            conn.discard(p)
        elif x < 0.30:
            dt = rng.choice([100, 1000, 7000, 7000, 31000, 61000, 125000])
            clock += dt
            ops.append(["tick", dt])
        elif x < 0.33:
            ops.append(["settime", clock - rng.choice([1, 1000, 100000])])   # backward / stalled clock
        elif x < 0.72:
            p = rng.choice(sorted(conn)) if rng.random() < 0.95 else rng.randint(1, npeers)
            if sent and rng.random() < 0.35:
                a = list(rng.choice(sent))       # another peer delivers the same announcement
                a[1] = p
                ops.append(a)
            else:
                node = rng.randint(0, nnodes) if rng.random() < 0.08 else rng.randint(1, nnodes)
                kind = rng.choice(["node", "inv", "inv", "refs", "refs"])
                repo = rng.randint(1, nrepos) if kind == "refs" else 0
                key = (node, kind, repo)
                y = rng.random()
                if y < 0.55:
                    ts = max(last_ts.get(key, clock), clock) + rng.randint(1, 500)     # newer
                elif y < 0.70:
                    ts = last_ts.get(key, clock + 1)                                  # equal
                elif y < 0.80:
                    ts = last_ts.get(key, clock) - rng.randint(1, 5000)               # older
                elif y < 0.86:
                    ts = clock + 3_600_000 + rng.choice([-1, 0, 1, 5000])             # around the horizon
                elif y < 0.90:
                    ts = clock - 3_600_000 - rng.choice([-1, 0, 1, 5000])             # too old to relay
                elif y < 0.94:
                    ts = ZEROT                                                         # timestamp 0
                else:
                    ts = clock + rng.randint(1, 100)
                sig = rng.random() < 0.92
                variant = rng.randint(0, (1 << nrepos) - 1) if kind == "inv" else rng.choice([1, 1, 2, 99])
                if node == 0:
                    node, sig = 0, True   # an announcement claiming to be ours, validly signed by our key
                op = ["ann", p, node, kind, repo, ts, sig, variant]
                ops.append(op)
                if sig and ts != ZEROT:
                    sent.append(op)
                    last_ts[key] = max(last_ts.get(key, ts), ts)
        elif x < 0.82:
            p = rng.choice(sorted(conn))
            if rng.random() < 0.5:
                f = "all"
            else:
                f = sorted(rng.sample(range(1, nrepos + 1), rng.randint(0, nrepos)))
            y = rng.random()
            if y < 0.6:
                since, until = ZEROT, MAXT
            elif y < 0.8:
                since, until = clock - rng.randint(0, 100000), MAXT
            elif y < 0.9:
                since, until = clock + 10, clock + 5       # inverted range
            else:
                since, until = clock, clock                # empty range
            ops.append(["sub", p, f, since, until])
        elif x < 0.90:
            stored = [r + 1 for r in range(nrepos) if repos[r]["stored"]]
            if stored:
                ops.append(["refs", rng.choice(stored)])
        elif x < 0.93:
            stored = [r + 1 for r in range(nrepos) if repos[r]["stored"]]
            if stored:
                r = rng.choice(stored)
                priv = rng.random() < 0.6
                ops.append(["vis", r, priv, sorted(rng.sample(range(1, nnodes + 1), rng.randint(0, 2)))])
                priv_now[r - 1] = priv
                if rng.random() < 0.4:
                    ops.append(["restart"])
                elif priv and conn:
                    # probe the relay paths for the repository that has just become private while the node runs:
                    # subscribers, then a third party's (newer) refs announcement about it
                    for q in sorted(conn)[:2]:
                        ops.append(["sub", q, "all", ZEROT, MAXT])
                    p = rng.choice(sorted(conn))
                    node = rng.randint(1, nnodes)
                    for kind, repo in (("node", 0), ("refs", r)):
                        key = (node, kind, repo)
                        ts = max(last_ts.get(key, clock), clock) + rng.randint(1, 500)
                        op = ["ann", p, node, kind, repo, ts, True, 0 if kind == "node" else rng.choice([1, 2])]
                        ops.append(op)
                        sent.append(op)
                        last_ts[key] = ts
        elif x < 0.95:
            ops.append(["restart"])
        elif x < 0.97:
            # AddInventory is only issued for public repositories (its callers check visibility)
            pub = [r + 1 for r in range(nrepos) if repos[r]["stored"] and not priv_now[r]]
            y = rng.random()
            if y < 0.4 and pub:
                ops.append(["inv_add", rng.choice(pub)])
            else:
                ops.append([rng.choice(["seed", "unseed"]), rng.randint(1, nrepos)])
        else:
            p = rng.randint(1, npeers)
            ops.append(rng.choice([["ping", p, rng.choice([0, 1, 8192, 65535]), rng.choice([0, 10])],
                                   ["pong", p, rng.choice([0, 1, 8192])], ["info", p], ["ann_inv"]]))
    return {"run": f"r{i}", "peers": npeers, "nodes": nnodes, "repos": repos, "persistent": persistent, "ops": ops}


# scripted regression scenarios (the confirmed findings of DESIGN.md section 7)
def scripted():
    base = {"peers": 2, "nodes": 3, "repos": MODEL_REPOS}
    return [
        dict(base, run="s-stale-deliverer", ops=[["connect", 1], ["ann", 1, 1, "node", 0, 100, True, 0], ["connect", 2],
             ["ann", 2, 2, "node", 0, 100, True, 0], ["ann", 1, 3, "node", 0, 200, True, 0], ["ann", 1, 3, "inv", 0, 300, True, 1],
             ["ann", 2, 3, "inv", 0, 300, True, 1], ["tick", 7000]]),
        dict(base, run="s-replay-private", ops=[["connect", 1], ["ann", 1, 3, "node", 0, 200, True, 0], ["ann", 1, 3, "refs", 2, 400, True, 1],
             ["ann", 1, 3, "refs", 3, 400, True, 1], ["refs", 2], ["connect", 2], ["sub", 2, "all", ZEROT, MAXT]]),
        # a repository made private while the node runs: a third party's refs announcement about it must not be
        # relayed to a subscriber outside the allow list (seeded change C11c: relay() trusting the cached inventory)
        dict(base, run="s-private-while-running-relay", ops=[["connect", 1], ["connect", 2], ["sub", 2, "all", ZEROT, MAXT], ["ann", 1, 3, "node", 0, 200, True, 0],
             ["ann", 1, 3, "refs", 1, 300, True, 1], ["vis", 1, True, [1]], ["ann", 1, 3, "refs", 1, 400, True, 2], ["tick", 7000]]),
        # a private repository that is seeded but not (yet) in storage: its visibility cannot be determined, so a
        # third party's refs announcement about it is relayed to nobody (seeded change C11d)
        dict(base, repos=MODEL_REPOS + [{"stored": False, "seeded": True, "private": True, "allow": [], "delegates": [3]}],
             run="s-relay-private-not-stored", ops=[["connect", 1], ["connect", 2], ["sub", 2, "all", ZEROT, MAXT],
             ["ann", 1, 3, "node", 0, 200, True, 0], ["ann", 1, 3, "refs", 4, 300, True, 1], ["tick", 7000]]),
        dict(base, run="s-ts-zero", ops=[["connect", 1], ["ann", 1, 3, "node", 0, ZEROT, True, 0], ["ann", 1, 1, "node", 0, 5, True, 0]]),
        dict(base, run="s-inverted-range", ops=[["connect", 1], ["sub", 1, "all", 10, 5], ["ann", 1, 1, "node", 0, 5, True, 0]]),
        dict(base, run="s-clock-backward", ops=[["connect", 1], ["sub", 1, "all", ZEROT, MAXT], ["refs", 1], ["refs", 1], ["settime", -5000], ["refs", 1],
             ["tick", 1], ["refs", 2], ["restart"], ["refs", 1], ["settime", -100000], ["inv_add", 1], ["refs", 1]]),
    ]


def run_gossip(ctx, clauses, thorough, model=True):
    """Returns (violations, stats). violations: list of dict(clause, why, script, at_op)."""
    ctx.build(ENGINE)
    scripts = scripted()
    stats = {"model_behaviours": 0, "random_runs": 0, "scripted_runs": len(scripts)}
    if model:
        cfg = "MCGossip_t.cfg" if thorough else "MCGossip_q.cfg"
        res = ctx.tlc("MCGossip", cfg, workers=1, timeout=3000 if thorough else 600, coverage=True, heap="8g",
                      label="design model, exhaustive: invariants C10_*, C11_*, C29_* with deviations disabled")
        ctx.tlc_ok(res, "MCGossip")
        if res.violated:
            ctx.violation(f"model:{res.violated}", "the design model violates the invariant", {"tlc": res.error_trace[:120]})
            return [], stats
        ctx.require_coverage(res, ["Connect", "Disconnect", "Receive", "Subscribe", "GossipTick", "AnnounceRefs", "VisChange", "Restart"])
        for name, cfgd, inv in (("stale-deliverer", "MCGossip_dev1.cfg", "C10_NoEcho"), ("replay-unstored", "MCGossip_dev2.cfg", "C11_Refs")):
            dev = ctx.tlc("MCGossip", cfgd, workers=1, timeout=900, coverage=False, count=False, heap="8g",
                          label=f"sanity: deviation {name} must violate {inv}")
            if dev.violated != inv:
                raise vlib.ToolError(f"sanity run: deviation {name} was not rejected by TLC ({dev.violated})")
        behaviours = [c["ops"] for c in res.cases if c.get("ops")]
        rng = random.Random(ctx.seed)
        limit = 12000 if thorough else 2500
        if len(behaviours) > limit:
            behaviours = rng.sample(behaviours, limit)
            stats["model_sampled"] = True
        else:
            stats["model_sampled"] = False
        scripts += [model_to_script(i, b) for i, b in enumerate(behaviours)]
        stats["model_behaviours"] = len(behaviours)
        stats["model_states"] = res.distinct
    rng = random.Random(ctx.seed * 7919 + 1)
    nrand = 1500 if thorough else 250
    for i in range(nrand):
        scripts.append(random_script(rng, i, rng.randint(10, 60 if thorough else 40)))
    stats["random_runs"] = nrand
    # run the engine on shards in parallel, validate each shard with TLC
    nshards = 12
    shards = [scripts[i::nshards] for i in range(nshards)]
    procs = []
    for i, sh in enumerate(shards):
        sp = os.path.join(ctx.work, f"scripts{i}.ndjson")
        with open(sp, "w") as f:
            for s in sh:
                f.write(json.dumps(s, separators=(",", ":")) + "\n")
        ep = os.path.join(ctx.work, f"events{i}.ndjson")
        procs.append((sh, sp, ep, subprocess.Popen([ctx.bin(ENGINE), "--scripts", sp, "--out", ep], cwd=ctx.work,
                                                   stdout=subprocess.PIPE, stderr=subprocess.PIPE, text=True)))
    viols = []
    steps = 0
    for sh, sp, ep, pr in procs:
        try:
            _, err = pr.communicate(timeout=3000)
        except subprocess.TimeoutExpired:
            pr.kill()
            raise vlib.ToolError("gossip engine timed out")
        if pr.returncode != 0:
            raise vlib.ToolError(f"gossip engine failed rc={pr.returncode}: {err[-2000:]}")
    merged = os.path.join(ctx.work, "events.ndjson")
    events = []
    with open(merged, "w") as out:
        for sh, sp, ep, pr in procs:
            with open(ep) as f:
                for line in f:
                    out.write(line)
                    events.append(line)
    ok, info, tres = ctx.validate("TraceGossip", "TraceGossip.cfg", merged, timeout=3000, heap="8g")
    if not ok:
        raise vlib.ToolError(f"trace validation did not consume the whole log: {info}")
    # index: record number -> (run id, op index)
    runs = {s["run"]: s for s in scripts}
    cur = None
    where = {}
    for n, line in enumerate(events, start=1):
        e = json.loads(line)
        if e["ev"] == "init":
            cur = e["run"]
        elif e["ev"] == "step":
            steps += 1
        where[n] = cur
    extras = {}
    for c in tres.cases:
        for v in c["viol"]:
            if v["c"].startswith("X_"):
                # clauses beyond the listed properties: informational
                e = extras.setdefault(v["c"] + ":" + v["why"], {"count": 0, "first_run": where.get(c["at"]), "op": c["op"]})
                e["count"] += 1
    stats["extras_beyond_listed_properties"] = extras
    if extras:
        vlib.log(f"EXTRA clauses (routing table; informational, not gating) violated: {list(extras)[:5]}")
    for c in tres.cases:
        for v in c["viol"]:
            if v["c"] in clauses or any(v["c"].startswith(p) for p in clauses if p.endswith("_")):
                run = where.get(c["at"])
                viols.append({"clause": v["c"], "why": v["why"], "aid": v.get("aid"), "to": v.get("to"), "run": run,
                              "op": c["op"], "script": runs.get(run)})
    # Strict conformance of the design model (informational: drift, not a violation): the executions of
    # the model's own behaviours must be behaviours of Gossip.tla's ACTIONS with the observed writes,
    # disconnects, gossip table, address book and routing table (spec/TraceGossipOp.tla).
    if model and stats.get("model_behaviours"):
        # the executions of the model's behaviours are already in the log: select their records
        ep = os.path.join(ctx.work, "mevents.ndjson")
        nm, keep, budget = 0, False, (12000 if thorough else 1500)
        with open(ep, "w") as f:
            for line in events:
                if line.startswith('{"ev":"init"'):
                    rid = json.loads(line)["run"]
                    keep = str(rid).startswith("m") and nm < budget
                    nm += 1 if keep else 0
                if keep:
                    f.write(line)
        try:
            okm, infom, tresm = ctx.validate("TraceGossipOp", "TraceGossipOp.cfg", ep, timeout=3000, heap="8g",
                                             label="strict model conformance (informational)")
            stats["model_conformance"] = {"behaviours": nm, "accepted": okm, "rejected": infom.get("rejected")}
            if not okm:
                vlib.log(f"MODEL-DRIFT (not a violation): the real Service left Gossip.tla's actions: {infom.get('rejected')}")
            if okm and thorough:
                # binding self-test: a log with one stored announcement dropped / one write added must be rejected
                lines = open(ep).read().splitlines()
                for kind in ("drop-table-entry", "add-write"):
                    done, outl = False, []
                    for ln in lines:
                        e = json.loads(ln)
                        if not done and e["ev"] == "step":
                            if kind == "drop-table-entry" and len(e["table"]) >= 3:
                                e["table"], done = e["table"][:-1], True
                            elif kind == "add-write" and e["op"][0] == "ann" and e["conn"] and e["table"]:
                                e["sends"], done = e["sends"] + [[e["conn"][0], e["table"][0]]], True
                        outl.append(json.dumps(e, separators=(",", ":")))
                    cp = os.path.join(ctx.work, f"selftest-{kind}.ndjson")
                    with open(cp, "w") as f:
                        f.write("\n".join(outl) + "\n")
                    okc, _, _ = ctx.validate("TraceGossipOp", "TraceGossipOp.cfg", cp, timeout=3000, heap="8g", label=f"binding self-test: {kind}")
                    if okc:
                        raise vlib.ToolError(f"binding self-test failed: corrupted log ({kind}) was accepted by TraceGossipOp")
                stats["model_conformance"]["selftest_corrupted_logs_rejected"] = 2
        except vlib.ToolError as e:
            if "self-test" in str(e):
                raise
            stats["model_conformance"] = {"behaviours": nm, "accepted": None, "error": str(e)[:300]}
    stats["steps"] = steps
    stats["runs"] = len(scripts)
    stats["events"] = len(events)
    ctx.cov["traces_validated_against_impl"] += len(scripts)
    ctx.cov["evaluations"] += steps
    ctx.cov["samples"] += [scripts[len(scripted())] if len(scripts) > len(scripted()) else scripts[0], scripts[-1]]
    return viols, stats


def report(ctx, viols):
    for v in viols:
        sig = f"{v['clause']}:{v['why']}"
        ctx.violation(sig, f"run {v['run']} step {json.dumps(v['op'])}: clause {v['clause']} violated ({v['why']}), announcement {v['aid']} to peer {v['to']}",
                      {"script": v["script"], "op": v["op"]})


def replay(ctx, path):
    ctx.build(ENGINE)
    d = json.load(open(path))["replay"]
    sp = os.path.join(ctx.work, "one.ndjson")
    with open(sp, "w") as f:
        f.write(json.dumps(d["script"]) + "\n")
    ep = os.path.join(ctx.work, "one.events.ndjson")
    ctx.engine(ENGINE, ["--scripts", sp, "--out", ep])
    ok, info, tres = ctx.validate("TraceGossip", "TraceGossip.cfg", ep)
    for line in open(ep):
        print(line.rstrip()[:400])
    for c in tres.cases:
        print("VIOLATED", json.dumps(c))
    ctx.cleanup()
    return 0
