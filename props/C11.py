"""C11 Private repositories never leak through gossip (spec/Gossip.tla, spec/TraceGossip.tla)."""
import sys, os
sys.path.insert(0, os.path.dirname(__file__))
import gossip_common as g

RULE = ("same scripts as C10 (model behaviours + scripted + seeded random, with private repositories, allow lists, visibility changes and "
        "restarts); clauses C11_RefsLeak (every refs announcement written to a peer, on the own / relay / replay paths, is visible to it) and "
        "C11_InventoryLeak (own inventory announcements list no private repository) evaluated by TLC at every recorded step")


def run(ctx):
    thorough = ctx.tier == "thorough"
    viols, stats = g.run_gossip(ctx, {"C11_"}, thorough)
    g.report(ctx, viols)
    ctx.cov["distinct_nontrivial"] = stats.get("runs", 0)
    ctx.cov["exhaustive"] = not stats.get("model_sampled", True)
    ctx.assumptions += ["ground truth for visibility of repositories the node does not store is the scenario's declaration",
                        "an inventory announcement is judged against visibility at the time it was created (initialize / inventory refresh)"]
    return ctx.finish(rule=RULE, extra={"gossip": stats})


def replay(ctx, path):
    return g.replay(ctx, path)
