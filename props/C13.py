"""C13 No input from a remote peer can crash the node.

Assembled from the parts that own each input surface:
  * gossip messages in every connection state, with boundary values (timestamp 0, since > until, maximum
    ping sizes, empty vectors, forged signatures, messages from disconnected / unknown peers): the gossip
    engine's scenarios, clause C13_Panic of TraceGossip.tla;
  * fetch scheduling inputs (announcement-triggered fetches, results in any order, connections, dial
    failures and disconnections of either link): props/C16.py c13_part (scripted + seeded random scenarios on
    the real Service, clause C16_Panic of TraceFetchSched.tla);
  * git request headers: props/C12.py c13_part (Serve.tla header classes + seeded random/mutated bytes
    through the real pkt-line parser);
  * frame bytes: props/C14.py c13_part (Wire.tla frame classes + seeded random/mutated bytes through the
    real frame decoder);
  * control frames, git frames, gossip and raw bytes through the real `Wire::handle_transport_event` in any
    order with fetches, worker results and reconnects: props/wire_common.py c13_part (Streams.tla design
    model + seeded random scenarios on the real Wire around the real Service).
"""
import importlib.util
import os
import sys
sys.path.insert(0, os.path.dirname(__file__))
import gossip_common as g
import vlib

RULE = ("service part: model behaviours + scripted + seeded random gossip scenarios with boundary-valued messages in all session states, "
        "each step executed under catch_unwind on the real Service and checked by TLC (clause C13_Panic); header part: every header class of "
        "Serve.tla + seeded random / mutated header bytes through the real pkt-line parser; frame part: every frame class x split of Wire.tla "
        "+ seeded random / mutated frame bytes through the real decoder. non-trivial = inputs that reach a handler (not dropped at the session lookup)")


def load(name):
    path = os.path.join(os.path.dirname(__file__), name + ".py")
    if not os.path.exists(path):
        return None
    spec = importlib.util.spec_from_file_location(name + "_for_c13", path)
    mod = importlib.util.module_from_spec(spec)
    spec.loader.exec_module(mod)
    return mod


def run(ctx):
    thorough = ctx.tier == "thorough"
    viols, stats = g.run_gossip(ctx, {"C13_"}, thorough)
    for v in viols:
        msg = v["why"]
        cls = msg.split(":")[0]
        what = "other"
        if "must not be zero" in msg:
            what = "timestamp-zero"
        elif "from <= *to" in msg or "from <= to" in msg:
            what = "inverted-range"
        ctx.violation(f"C13_Panic:service:{cls}:{what}", f"run {v['run']} step {v['op']}: the service panicked: {msg[:300]}",
                      {"script": v["script"], "op": v["op"]})
    parts = {"gossip": stats}
    ctx.cov["distinct_nontrivial"] = stats.get("steps", 0)
    for name in ("C12", "C14", "wire_common", "C16"):
        mod = load(name)
        if mod is not None and hasattr(mod, "c13_part"):
            parts[name] = mod.c13_part(ctx)
        else:
            parts[name] = "not available"
    ctx.assumptions += ["panics are observed with catch_unwind (service) / guard (parsers); aborts and OOM only in the frame part's child processes",
                        "inputs that only radicle-fetch sees (pack data, refs served by a peer during a fetch) are not part of this property's enumerated inputs"]
    return ctx.finish(rule=RULE, extra={"parts": parts})


def replay(ctx, path):
    import json
    d = json.load(open(path))["replay"]
    if "script" in d:
        return g.replay(ctx, path)
    for name in ("C12", "C14", "wire_common", "C16"):
        mod = load(name)
        if mod is not None and d.get("engine") == getattr(mod, "ENGINE", None):
            return mod.replay(ctx, path)
    print(json.dumps(d)[:2000])
    ctx.cleanup()
    return 0
