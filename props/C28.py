"""C28 Storage cleanup never deletes the local or delegate namespaces (spec/Clean.tla)."""
import json
import os
import random
import vlib

ENGINE = "c28_clean"
INVS = ("OnlyStrangersRemoved ProtectedUntouched WholeRepoOnlyWithoutSigrefs NoSigrefsRemovesRepo UnreadableIsError ErrorIsNoop ReportedIsRemoved "
        "UnsignedKept Idempotent")

RULE = ("cases = maximal behaviours of the bounded model (peers L d1 d2 f o; 7 delegate sets; all namespace-state combinations "
        "absent/unsigned/signed/corrupt; identity document at refs/rad/id readable / missing / of an unsupported version; up to 3 (quick) / "
        "4 (thorough) clean / re-fetch / re-point-refs/rad/id steps), each materialised as a real repository in a real "
        "Storage (identity document with that delegate set, real namespaces, real signed refs) and stepped through the real "
        "Storage::clean with the projected namespace states compared after every step; quick tier: a seeded sample stratified by "
        "(delegate set, local namespace state, identity document state), thorough: all; gating = C28 on the real pre/post states (local and delegate "
        "namespaces unchanged while the repository is kept; repository removed only if the local peer had no sigrefs; an error "
        "changes nothing; no panic); non-trivial = clean steps that removed something; plus random 8-peer executions recorded "
        "from the implementation, on which TLC evaluates the module's invariants")


def sig_of(r):
    return (f"clean delegates={','.join(r['delegates'])} identity={r.get('iddoc_now', 'ok')} pre={json.dumps(r['pre'], sort_keys=True, separators=(',', ':'))} -> "
            f"{r['breach']}")


def run(ctx):
    thorough = ctx.tier == "thorough"
    ctx.build(ENGINE)
    # 1. design level
    res = ctx.tlc("MCClean", "MCClean_t.cfg" if thorough else "MCClean_q.cfg", workers=4, timeout=900, coverage=True, label=f"exhaustive: invariants {INVS}")
    ctx.tlc_ok(res, "MCClean")
    if res.violated:
        ctx.violation(f"model:{res.violated}", "the transcribed cleanup violates the statement in the bounded model",
                      {"tlc_counterexample": res.error_trace[:80]})
        return ctx.finish(rule=RULE)
    ctx.require_coverage(res, ["Clean", "Fetch", "BreakId"])
    cases = res.cases
    steps = [s for c in cases for s in c["steps"]]
    unreadable = [c for c in cases if c["iddoc"] != "ok"]
    if not (any(c["init"]["L"] == "signed" and "L" not in c["delegates"] and c["steps"][0]["res"] == "err" for c in unreadable) and
            any(c["init"]["L"] == "signed" and "L" in c["delegates"] for c in unreadable) and
            any(c["init"]["L"] in ("absent", "unsigned") and not c["steps"][0]["exists"] for c in unreadable) and
            any(s["op"] == "breakid" for s in steps)):
        raise vlib.ToolError("vacuous case set: unreadable identity document classes missing")
    if not (any(not s["exists"] for s in steps) and any(s["res"] == "err" for s in steps) and
            any(s["op"] == "fetch" for s in steps) and any(s["op"] == "clean" and s["exists"] and s["ret"] for s in steps)):
        raise vlib.ToolError("vacuous case set")
    # 2. two wrong variants must be rejected by TLC
    for cfg, inv in (("MCClean_dev3.cfg", "ProtectedUntouched"), ("MCClean_dev4.cfg", "OnlyStrangersRemoved"), ("MCClean_dev.cfg", "OnlyStrangersRemoved"),
                     ("MCClean_dev2.cfg", "WholeRepoOnlyWithoutSigrefs")):
        dev = ctx.tlc("MCClean", cfg, workers=2, timeout=300, coverage=False, count=False,
                      label=f"sanity: wrong variant must violate {inv}")
        if dev.violated != inv:
            raise vlib.ToolError(f"sanity run {cfg}: expected violation of {inv}, got {dev.violated}")
        if not thorough and cfg == "MCClean_dev.cfg":
            break
    # 3. spec -> implementation
    if thorough:
        chosen = cases
    else:
        rnd = random.Random(ctx.seed)
        strata = {}
        for c in sorted(cases, key=lambda c: json.dumps(c, sort_keys=True)):
            # a peer yielded twice by remote_ids (namespace state signed2): as delegate, as stranger
            twice = ("d" if c["init"]["d1"] == "signed2" and "d1" in c["delegates"] else "") + ("o" if "signed2" in (c["init"]["o"], c["init"]["d1"] if "d1" not in c["delegates"] else "") else "")
            strata.setdefault((",".join(c["delegates"]), c["init"]["L"], c["iddoc"], twice), []).append(c)
        chosen = []
        for k in sorted(strata):
            chosen += rnd.sample(strata[k], min(6 if k[2] == "ok" else 4, len(strata[k])))
    if not any(c["init"]["d1"] == "signed2" and "d1" in c["delegates"] and c["init"]["L"] == "signed" and c["iddoc"] == "ok" for c in chosen):
        raise vlib.ToolError("vacuous case set: no delegate whose namespace is yielded twice")
    cpath = ctx.write_cases(chosen)
    out = os.path.join(ctx.work, "verdicts.ndjson")
    ctx.engine(ENGINE, ["--mode", "replay", "--cases", cpath, "--out", out, "--threads", 6], timeout=3000)
    recs = ctx.read_ndjson(out)
    summary = [r for r in recs if r.get("summary")][0]
    for r in recs:
        if not r.get("summary") and not r["ok"]:
            ctx.violation(sig_of(r), f"real Storage::clean: {r['breach']}; result {r['actual']}", r)
    if summary["cleans_removing_something"] == 0:
        raise vlib.ToolError("no replayed clean removed anything")
    ctx.cov["evaluations"] += summary["steps"]
    ctx.cov["distinct_nontrivial"] += summary["cleans_removing_something"]
    ctx.cov["traces_validated_against_impl"] += summary["behaviours"]
    ctx.cov["samples"] += chosen[:2]
    ctx.cov["exhaustive"] = bool(thorough)
    ctx.cov["behaviours_emitted"] = len(cases)
    ctx.cov["behaviours_replayed"] = summary["behaviours"]
    ctx.cov["drift_replay"] = summary["drift"]
    # 4. implementation -> spec
    rec = os.path.join(ctx.work, "rec.ndjson")
    ctx.engine(ENGINE, ["--mode", "record", "--n", 400 if thorough else 60, "--out", rec], timeout=3000)
    recorded = ctx.read_ndjson(rec)
    ok, info, tres = ctx.validate("TraceClean", "TraceClean_strict.cfg", rec, timeout=900,
                                  label="trace validation (strict): every recorded clean is a Clean!Clean step; all invariants")
    GATING = ("OnlyStrangersRemoved", "ProtectedUntouched", "WholeRepoOnlyWithoutSigrefs", "ErrorIsNoop")  # on the ghost delegate set
    drift_trace = False
    if not ok and info.get("violated") not in GATING:
        drift_trace = True
        ok, info, tres = ctx.validate("TraceClean", "TraceClean.cfg", rec, timeout=900,
                                      label="trace validation (gating): " + " ".join(GATING))
    if not ok:
        at = tres.distinct - 1
        bad = recorded[at - 1] if 0 < at <= len(recorded) else None
        prev = recorded[at - 2] if at >= 2 else None
        ctx.violation(f"recorded clean delegates={','.join((bad or {}).get('delegates', []))} "
                      f"pre={json.dumps((prev or {}).get('ns'), sort_keys=True, separators=(',', ':'))} -> violates {info.get('violated')}",
                      f"recorded execution violates {info.get('violated')}", {"record": bad, "previous": prev, "tlc": info})
    else:
        runs = sum(1 for r in recorded if r["op"] == "reset")
        ctx.cov["traces_validated_against_impl"] += runs
        ctx.cov["evaluations"] += len(recorded) - runs
        ctx.cov["samples"] += recorded[:2]
    ctx.cov["drift_recorded_trace_rejected"] = drift_trace
    if summary["drift"] or drift_trace:
        vlib.log(f"MODEL-DRIFT (not a violation): real cleanup differs from the model (replay: {summary['drift']}, strict trace rejected: {drift_trace})")
    ctx.assumptions += ["the delegate set is the one of the last readable identity document at the canonical refs/rad/id (it does not change during a behaviour); an unreadable document is realised as a commit without embeds/radicle.json or with a version-2 document",
                        "namespaces are observed through their references (absent / no sigrefs / sigrefs verify / sigrefs do not verify); git objects are not inspected",
                        "followed peers are not distinguished by Repository::clean (policy is not consulted): `f` is just another non-delegate"]
    return ctx.finish(rule=RULE)


def replay(ctx, path):
    ctx.build(ENGINE)
    d = json.load(open(path))["replay"]
    if "steps" not in d:
        print("recorded-trace violation: re-run ./check C28 (the record is in the replay file)")
        print(json.dumps(d)[:2000])
        ctx.cleanup()
        return 0
    p = ctx.write_cases([{"delegates": d["delegates"], "init": d["init"], "iddoc": d.get("iddoc", "ok"), "steps": d["steps"]}], "one.ndjson")
    out = os.path.join(ctx.work, "o.ndjson")
    ctx.engine(ENGINE, ["--mode", "replay", "--cases", p, "--out", out, "--threads", 1])
    bad = False
    for x in ctx.read_ndjson(out):
        print(json.dumps(x))
        bad |= (not x.get("summary")) and not x["ok"]
    ctx.cleanup()
    return 1 if bad else 0
