"""C23 DAG traversals respect dependencies, pruning removes exactly descendants, merge is union
(spec/Dag.tla; engine c23_dag)."""
import json
import os
import vlib

ENGINE = "c23_dag"

RULE = ("cases = every DAG over a subset of 4 keys (reachable states of MCDag), each with the listed arguments: "
        "sorted_by rankings, fold/prune root sets x stop sets x orderings, remove of every key, merge of every graph with "
        "<= MaxOther nodes; each evaluated on a real Dag<u8,u8>; a graph is non-trivial when it has at least two "
        "dependency edges (counted by the engine); plus random operation sequences on <= 12-node graphs recorded from "
        "the implementation and validated step by step by TraceDag")


def sig_of(r):
    g = r["graph"]
    return (f"{r['what']} graph n={json.dumps(g['n'],separators=(',',':'))} d={json.dumps(g['d'],separators=(',',':'))} "
            f"args={json.dumps(r['args'],separators=(',',':'))}")


def run(ctx):
    thorough = ctx.tier == "thorough"
    ctx.build(ENGINE)
    # 0. sanity: the original merge (first root only) must be rejected by TLC
    dev = ctx.tlc("MCDag", "MCDag_dev.cfg", workers=2, timeout=300, coverage=False, count=False,
                  label="sanity: merge from the first root only must violate MergeSound")
    if dev.violated != "MergeSound":
        raise vlib.ToolError("sanity run: single-root merge model was not rejected by TLC")
    # 1. design level + case emission
    cfg = "MCDag_t.cfg" if thorough else "MCDag_q.cfg"
    res = ctx.tlc("MCDag", cfg, workers=8 if thorough else 6, timeout=3000 if thorough else 600, coverage=False, heap="6g",
                  label="exhaustive: all DAGs over <= 4 keys; invariants SortedSound FoldSound PruneSound RemoveSound MergeSound")
    ctx.tlc_ok(res, "MCDag")
    if res.violated:
        ctx.violation(f"model:{res.violated}", "a transcribed Dag algorithm violates the statement in the bounded model",
                      {"tlc_counterexample": res.error_trace[:80]})
        return ctx.finish(rule=RULE)
    if len(res.cases) != res.distinct or not res.cases:
        raise vlib.ToolError(f"TLC emitted {len(res.cases)} cases for {res.distinct} states")
    if thorough:
        big = ctx.tlc("MCDag", "MCDag_t5.cfg", workers=8, timeout=3000, coverage=False, heap="6g",
                      label="exhaustive: all DAGs over <= 5 keys (design level only, reduced argument sets, no cases)")
        ctx.tlc_ok(big, "MCDag 5 keys")
        if big.violated:
            ctx.violation(f"model5:{big.violated}", "a transcribed Dag algorithm violates the statement (5 keys)",
                          {"tlc_counterexample": big.error_trace[:80]})
            return ctx.finish(rule=RULE)
    # vacuity: stop sets that cut something, multi-root merges
    cut = sum(1 for c in res.cases for f in c["folds"] if f[1] and len(f[3]) < len(c["g"]["n"]))
    multi = sum(1 for c in res.cases for m in c["merges"] if len(m[2]["roots"]) > 1 and m[1])
    if cut == 0 or multi == 0:
        raise vlib.ToolError("vacuous case set (no cutting stop set / no multi-root merge)")
    # 2. spec -> implementation
    cases = ctx.write_cases(res.cases)
    out = os.path.join(ctx.work, "verdicts.ndjson")
    ctx.engine(ENGINE, ["--mode", "replay", "--cases", cases, "--out", out, "--threads", 8])
    recs = ctx.read_ndjson(out)
    summary = [r for r in recs if r.get("summary")][0]
    for r in recs:
        if not r.get("summary"):
            ctx.violation(sig_of(r), f"real Dag::{r['what']} gave {json.dumps(r['actual'])[:300]}; model expects {json.dumps(r['expected'])[:300]}", r)
    ctx.cov["evaluations"] += summary["evaluations"]
    ctx.cov["traces_validated_against_impl"] += len(res.cases)
    ctx.cov["distinct_nontrivial"] += summary["graphs_nontrivial"]
    ctx.cov["replay_breakdown"] = {k: summary[k] for k in ("sorted", "folds", "prunes", "removes", "merges")}
    ctx.cov["drift_replay"] = summary["drift"]
    if summary["drift"]:
        vlib.log("MODEL-DRIFT (not a violation): visiting orders differ from the transcribed traversal but satisfy the statement")
    s = res.cases[len(res.cases) // 2]
    ctx.cov["samples"].append({"graph": s["g"], "fold": s["folds"][-1], "prune": s["prunes"][-1], "merge": s["merges"][-1]})
    ctx.cov["exhaustive"] = True
    # 3. implementation -> spec
    rec = os.path.join(ctx.work, "rec.ndjson")
    n, keys, steps = (1500, 11, 40) if thorough else (100, 9, 30)
    ctx.engine(ENGINE, ["--mode", "record", "--n", n, "--keys", keys, "--steps", steps, "--out", rec])
    recorded = ctx.read_ndjson(rec)
    ok, info, tres = ctx.validate("TraceDag", "TraceDag.cfg", rec, timeout=3000 if thorough else 600)
    if not ok:
        at = tres.distinct  # records matched = distinct - 1; offending record is the next one
        bad = recorded[at - 1] if 0 < at <= len(recorded) else None
        # history of the run the offending record belongs to
        start = max(i for i in range(at) if recorded[i]["op"] == "reset") if bad else 0
        ctx.violation(f"recorded {json.dumps(bad, separators=(',', ':'))[:400]}",
                      "a recorded call of the real Dag is not a step of Dag.tla / its result violates the statement",
                      {"history": recorded[start:at], "tlc": info})
    else:
        ctx.cov["traces_validated_against_impl"] += sum(1 for r in recorded if r["op"] == "reset")
        ctx.cov["evaluations"] += len(recorded)
        ctx.cov["recorded_calls"] = len(recorded)
        ctx.cov["samples"] += [r for r in recorded if r["op"] in ("prune", "merge")][:2]
    ctx.assumptions += ["callers add nodes before edges and never create cycles (the crate relies on this)",
                        "orderings passed to sorted_by / prune_by are total orders on keys",
                        "node values play no role in traversal"]
    return ctx.finish(rule=RULE)


def replay(ctx, path):
    """Re-run a single failing case against the current tree."""
    ctx.build(ENGINE)
    d = json.load(open(path))["replay"]
    if "history" in d:
        p = ctx.write_cases(d["history"], "one.ndjson")
        ok, info, _ = ctx.validate("TraceDag", "TraceDag.cfg", p)
        print("recorded history (from the violation file) is", "accepted" if ok else f"rejected: {info.get('rejected')}")
        ctx.cleanup()
        return 0
    g = d["graph"]
    case = {"g": {"n": g["n"], "d": g["d"], "tips": [], "roots": []}, "sorted": [], "folds": [], "prunes": [], "removes": [], "merges": []}
    print("graph:", json.dumps(g), "call:", d["what"], json.dumps(d["args"]))
    print("model expects:", json.dumps(d["expected"]))
    a = d["args"]
    # tips/roots of the graph itself are recomputed by the engine's build check; give the model values
    n, dd = set(g["n"]), [tuple(e) for e in g["d"]]
    case["g"]["tips"] = sorted(k for k in n if not any(e[1] == k for e in dd))
    case["g"]["roots"] = sorted(k for k in n if not any(e[0] == k for e in dd))
    if d["what"].startswith("merge"):
        case["merges"] = [[a["other_n"], a["other_d"], d["expected"]]]
    elif d["what"].startswith("remove"):
        case["removes"] = [[a["k"], d["expected"]]]
    elif d["what"].startswith("prune"):
        exp = d["expected"] if "n" in d["expected"] else {"n": [], "d": [], "tips": [], "roots": []}
        case["prunes"] = [[a["roots"], a["stop"], a["rank"], d["expected"].get("model_log", []), [], exp, d["expected"].get("visited", [])]]
    elif d["what"].startswith("fold"):
        case["folds"] = [[a["roots"], a["stop"], d["expected"].get("model_log", []), d["expected"].get("visited", [])]]
    elif d["what"].startswith("sorted"):
        case["sorted"] = [[a.get("rank", []), []]]
    cp = ctx.write_cases([case], "c.ndjson")
    out = os.path.join(ctx.work, "o.ndjson")
    ctx.engine(ENGINE, ["--mode", "replay", "--cases", cp, "--out", out, "--threads", 1])
    for r in ctx.read_ndjson(out):
        print("real code:", json.dumps(r))
    ctx.cleanup()
    return 0
