"""C07 Issue and patch actions obey the authorization rules (spec/Tracker.tla, engine c07_authz)."""
import os
import sys

sys.path.insert(0, os.path.dirname(os.path.abspath(__file__)))
from concurrent.futures import ThreadPoolExecutor

import vlib
import _tracker as T

ENGINE = "c07_authz"
FAMILIES = ["issue", "meta", "disc", "review"]
DEVS = {"ilabel": "C07_Issue", "iredact": "C07_Issue", "plabel": "C07_Patch", "passign": "C07_Patch"}
QUICK_DEVS = 2
REC = {False: (24, 22), True: (70, 30)}   # (runs, ops per run) of the recorder, quick / thorough
REC_WHAT = "random issue and patch histories (6 actors, 3 documents, forks) through storage + cob::get"
RULE = ("cases = every distinct reachable state of the four bounded instances (issue; patch title/labels/assignees/lifecycle/"
        "revisions; revision discussions; reviews and review comments), each reached by replaying its op log on the real "
        "Issue/Patch and then hit with every op of the instance's alphabet (every actor x every identity document x every "
        "existing or unknown target); evaluations = real op applications compared with the model's prediction; "
        "non-trivial = applications of a protected action (label, assign, edit, lifecycle, comment/review edit or redact) "
        "by an actor who is not a delegate of the document the op refers to; plus random multi-author histories through "
        "real storage evaluated by the real cob::get, every evaluated step validated by TLC")


def run(ctx):
    thorough = ctx.tier == "thorough"
    ctx.build(ENGINE)
    bg = ThreadPoolExecutor(max_workers=2)
    f_dev = bg.submit(T.dev_runs, ctx, DEVS if thorough else dict(list(DEVS.items())[:QUICK_DEVS]))
    f_rec = bg.submit(T.record_and_validate, ctx, ENGINE, *REC[thorough], REC_WHAT)
    families = T.dev_subset(FAMILIES)   # developer knob VERIF_TRACKER_FAMILIES, normally all
    results = T.run_families(ctx, families, ctx.tier, workers=4 if thorough else 2, timeout=3000 if thorough else 600)
    stats = {}
    ncases = 0
    drift_total = 0
    for fam in families:
        res = results[fam]
        ctx.tlc_ok(res, f"MCTracker {fam}")
        if res.violated:
            T.model_violation(ctx, fam, res)
            continue
        n = res.ncases - 1
        recs, summary = T.replay_family(ctx, ENGINE, fam, res, 12 if thorough else 8, stats)
        T.vacuity(fam, summary)
        cfg = summary["cfg"]
        ncases += n
        ctx.cov["evaluations"] += summary["fan"] + summary["log_ops"]
        ctx.cov["distinct_nontrivial"] += summary["nondelegate_protected"]
        ctx.cov["traces_validated_against_impl"] += summary["cases"]
        viol, drift = T.classify(ctx, recs, cfg, None, fam)
        for rec, why in viol:
            ctx.violation(T.signature(rec, cfg), f"[{fam}] breaks {why}: " + T.describe(rec), dict(rec, cfg=cfg, trace=None))
        drift_total += len(drift) + summary["class_drift"]
        if drift:
            vlib.log(f"MODEL-DRIFT (not a violation) in {fam}: {len(drift)} steps differ from the transcription but satisfy the "
                     f"statement, e.g. {T.signature(drift[0], cfg)}: {T.describe(drift[0])[:300]}")
            stats[fam]["drift_example"] = T.signature(drift[0], cfg)
    f_dev.result()
    end, strict_rejected = T.merge_recorded(ctx, f_rec.result())
    bg.shutdown()
    ctx.cov["exhaustive"] = not ctx.violations and families == FAMILIES
    ctx.cov["samples"] = [{"family": f, **{k: stats[f][k] for k in ("cases", "fan", "nondelegate_protected", "fan_rejected")}} for f in stats][:4] + ctx.cov["samples"]
    ctx.assumptions += [
        "identity documents are materialised as commits carrying embeds/radicle.json and read through the real "
        "Repository::identity_doc_at; whether such a commit is a valid identity revision is C04's subject",
        "ops carry a single action (multi-action ops with a failing later action are C06's subject)",
        "op ids are distinct; timestamps are irrelevant to authorization",
        "in-memory replay applies ops one after another (no concurrency set); concurrent histories are covered by the recorded direction",
    ]
    return ctx.finish(rule=RULE, extra={"families": stats, "drift_steps": drift_total, "recorded": end,
                                        "recorded_strict_rejected": strict_rejected})


def replay(ctx, path):
    return T.replay_file(ctx, ENGINE, path)
