"""C05 Collaborative object state is a function of the change set (spec/Cob.tla)."""
import json
import os
import random
import vlib

ENGINE = "c05_cobstate"
GET_ACTIONS = ["Pick", "DelRef", "BeginGet", "LoadPop", "LoadDone", "InitRoot", "Step", "Finish"]


def compact(c):
    return f"deps={json.dumps(c['deps'], separators=(',', ':'))} ts={json.dumps(c['ts'], separators=(',', ':'))} cls={','.join(c['cls'])}"


def nontrivial(c):
    """A case exercises the property when it has concurrent changes (a tie-break or a merge)."""
    m = c["m"]
    deps = {k + 1: set(c["deps"][k]) for k in range(m)}

    def anc(k, acc):
        for d in deps[k]:
            if d and d not in acc:
                acc.add(d)
                anc(d, acc)
        return acc
    a = {k: anc(k, set()) for k in deps}
    return any(i not in a[j] and j not in a[i] for i in deps for j in deps if i < j)


def run(ctx):
    thorough = ctx.tier == "thorough"
    ctx.build(ENGINE)
    rnd = random.Random(ctx.seed)

    # 1. The function View: the transcribed algorithm stays within the declarative statement
    #    (AlgWithinStatement), the order is a linear extension that pruning does not disturb, on
    #    every change graph of the bounded space; one case per graph is emitted for the replay.
    runs = [("MCCob_q.cfg", "every change graph on root+3 changes, ts 1..2, delegate/guest authors: theorems (order is a linear extension, stable under removal; algorithm within the C05/C06 statement)")]
    if thorough:
        runs.append(("MCCob_t.cfg", "every change graph on root+4 changes, ts 1..2, at most one guest: theorems, also on every dependency-closed part; every 8th graph emitted"))
    cases = []
    for cfg, label in runs:
        res = ctx.tlc("MCCob", cfg, workers=8, timeout=3000 if thorough else 900, coverage=False, heap="6g", label=label)
        ctx.tlc_ok(res, cfg)
        if res.violated:
            ctx.violation(f"model:{cfg}:{res.violated}", "the transcribed evaluation violates the statement in the bounded model",
                          {"tlc_counterexample": res.error_trace[:120]})
            return ctx.finish(rule=RULE)
        if not res.cases:
            raise vlib.ToolError(f"{cfg}: TLC emitted no cases")
        cases.append(res.cases)
    # vacuity: ties broken by id, timestamps deciding, merges, redundant root edges must all occur
    allc = [c for cs in cases for c in cs]
    if not any(nontrivial(c) for c in allc) or not any(len(d) > 1 for c in allc for d in c["deps"]) \
            or not any(len(set(c["ts"])) > 1 for c in allc) or not any(len(set(c["ts"])) == 1 for c in allc):
        raise vlib.ToolError("vacuous case set (no concurrency / merges / timestamp ties)")

    # 2. The steps of cob::get on a replica whose references move (every reference assignment,
    #    every enumeration order): the loader finds the closure, the result is View(closure).
    gcfg = "MCCob_get_t.cfg" if thorough else "MCCob_get_q.cfg"
    g = ctx.tlc("MCCob", gcfg, workers=8, timeout=3000 if thorough else 900, coverage=True, heap="6g",
                label="step machine of cob::get with moving references: LoadIsClosure, C05_GetIsFunctionOfClosure, WalkNoTrace")
    ctx.tlc_ok(g, gcfg)
    if g.violated:
        ctx.violation(f"model:{gcfg}:{g.violated}", "the step machine of cob::get violates an invariant in the bounded model",
                      {"tlc_counterexample": g.error_trace[:160]})
        return ctx.finish(rule=RULE)
    ctx.require_coverage(g, GET_ACTIONS)

    # 3. spec -> implementation: materialise the graphs as real change commits and present them
    #    through many reference assignments.
    if thorough:
        # the whole root+3 space, a sample of the emitted root+4 graphs
        todo = [("issue", cases[0] + rnd.sample(cases[1], 20000)), ("patch", rnd.sample(cases[0], 1000) + rnd.sample(cases[1], 1000))]
        exhaustive = False
        ctx.cov["replay_exhaustive_for_root_plus_3_changes"] = True
    else:
        todo = [("issue", rnd.sample(cases[0], 1500)), ("patch", rnd.sample(cases[0], 200))]
        exhaustive = False
    drift = 0
    seen_nontrivial = set()
    for kind, cs in todo:
        path = ctx.write_cases(cs, f"cases-{kind}.ndjson")
        out = os.path.join(ctx.work, f"verdicts-{kind}.ndjson")
        ctx.engine(ENGINE, ["--mode", "replay", "--cases", path, "--out", out, "--procs", 8, "--kind", kind],
                   timeout=3000 if thorough else 900)
        recs = ctx.read_ndjson(out)
        summary = [r for r in recs if r.get("summary")][0]
        if summary["graphs"] != len(cs):
            raise vlib.ToolError(f"replay {kind}: {summary['graphs']} graphs replayed, {len(cs)} expected")
        for r in recs:
            if r.get("summary"):
                continue
            if not r["ok"]:
                c = r["case"]
                ctx.violation(f"{kind} {r['sig']} {compact(c)}",
                              f"presentation '{r['presentation']}': {r['detail']}", {"kind": kind, "case": c, "verdict": r})
        drift += summary["drift"]
        ctx.cov["evaluations"] += summary["evaluations"]
        ctx.cov["traces_validated_against_impl"] += summary["graphs"]
        for c in cs:
            if nontrivial(c):
                seen_nontrivial.add((kind, compact(c)))
        ctx.cov["samples"] += cs[:2]
    ctx.cov["distinct_nontrivial"] = len(seen_nontrivial)
    ctx.cov["exhaustive"] = exhaustive
    ctx.cov["drift_replay"] = drift

    # 4. implementation -> spec: random larger graphs (4..9 changes, ts 1..3), free object ids,
    #    partial closures, through get and list; validated by TLC against the statement (gating)
    #    and against the transcribed algorithm (informational).
    rec = os.path.join(ctx.work, "rec.ndjson")
    ctx.engine(ENGINE, ["--mode", "record", "--n", 1500 if thorough else 120, "--m", 9, "--out", rec, "--kind", "issue"])
    recorded = ctx.read_ndjson(rec)
    ok, info, tres = ctx.validate("TraceCob", "TraceCob.cfg", rec, timeout=3000 if thorough else 900)
    if not ok:
        at = tres.distinct - 1
        bad = recorded[at - 1] if 0 < at <= len(recorded) else None
        ctx.violation(f"recorded {info.get('violated')} {compact(bad) if bad else ''} refs={bad and bad['refs']}",
                      "a view recorded from the real cob::get/list is not one the statement allows, or differs between presentations of the same change set",
                      {"record": bad, "tlc": info})
    else:
        ctx.cov["traces_validated_against_impl"] += len(recorded)
        ctx.cov["evaluations"] += len(recorded)
        ctx.cov["samples"] += recorded[:1]
    ok2 = True
    if thorough:
        ok2, info2, _ = ctx.validate("TraceCob", "TraceCob_alg.cfg", rec, timeout=3000, label="drift (informational)")
        ctx.cov["drift_recorded_trace_rejected"] = (not ok2)
    if drift or not ok2:
        vlib.log("MODEL-DRIFT (not a violation): the implementation's evaluation order differs from the transcribed one")

    # 5. binding self-test (thorough): a corrupted record must be rejected
    if thorough and recorded:
        bad = [dict(r) for r in recorded[:40]]
        i = next((k for k, r in enumerate(bad) if len(r["view"]["log"]) >= 2), None)
        if i is not None:
            v = dict(bad[i]["view"])
            v["log"] = list(reversed(v["log"]))
            bad[i]["view"] = v
            p = ctx.write_cases(bad, "selftest.ndjson")
            ok3, _, _ = ctx.validate("TraceCob", "TraceCob.cfg", p, timeout=600, label="self-test: corrupted record must be rejected")
            if ok3:
                raise vlib.ToolError("self-test: a record with a reversed log was accepted by TraceCob")
    ctx.assumptions += [
        "object ids of the test commits are ground into the model's id order (leading byte slices); only their order matters to the code",
        "one reference per namespace and object (as in the storage layout); namespaces are arbitrary keys",
        "payloads are comments and title edits of real issues/patches; other action types are not exercised here",
        "change graphs in which every change descends from the root (a change commit is created on top of existing tips)",
    ]
    return ctx.finish(rule=RULE)


RULE = ("cases = change graphs (dependencies, timestamps 1..2, author class) enumerated by TLC from MCCob; each is written as "
        "real change commits of a real issue (and a sample as a patch) and evaluated through ~8-10 presentations (tip permutations "
        "over namespaces, reference creation order, other namespaces, extra references with the same closure, all namespaces, "
        "cob::list); violation = two presentations differ or the result is outside the statement; non-trivial = the graph has "
        "concurrent changes; plus random larger graphs with partial closures recorded from the implementation and validated by TLC")


def replay(ctx, path):
    ctx.build(ENGINE)
    d = json.load(open(path))["replay"]
    if "case" in d:
        p = ctx.write_cases([d["case"]], "one.ndjson")
        out = os.path.join(ctx.work, "o.ndjson")
        ctx.engine(ENGINE, ["--mode", "replay", "--cases", p, "--out", out, "--procs", 1, "--kind", d.get("kind", "issue")])
        for r in ctx.read_ndjson(out):
            print(json.dumps(r))
    else:
        print(json.dumps(d, indent=1)[:4000])
    ctx.cleanup()
    return 0
