"""C01 Replicated refs always match their owner's signed refs (spec/Fetch.tla, engine c01_fetch)."""
import importlib.util
import json
import os
import vlib

_spec = importlib.util.spec_from_file_location("_fetch", os.path.join(os.path.dirname(os.path.abspath(__file__)), "_fetch.py"))
F = importlib.util.module_from_spec(_spec)
_spec.loader.exec_module(F)

PROP = "C01"
RULE = ("cases = terminal states of MCFetch (families focus / refsat / scope [/ pair]): one real fetch each -- two real "
        "storages, real Ed25519-signed rad/sigrefs commits incl. raw tampered ones, real radicle_fetch::clone/pull over a "
        "git upload-pack child; compared: result variant + every namespace's references_of projection, plus "
        "Repository::remote + validate_remote on every changed namespace. distinct = distinct scenario classes (mode, "
        "refs_at, role / sigrefs flavour+version / advertised rad-id class / plain-ref tampering / stored version of the "
        "most tampered namespace, model result); non-trivial = classes in which the serving peer deviates from an honest "
        "one or the fetch changes storage. Plus seeded random 4-namespace scenarios recorded from the implementation "
        "and validated by TLC (TraceFetch).")


def weird(c, ns):
    s = c["srv"][ns - 1]
    sig = s["sig"]
    honest_id = {"v1": "i1", "v2": "i2", "v2f": "i1"}.get(sig["ver"], "none")
    if sig["fl"] == "noId":
        honest_id = "none"
    score = 0
    if sig["ver"] == "none":
        score += 1 + (2 if s["rid"] != "none" else 0)
    if sig["fl"] != "ok":
        score += 4
    if s["rid"] != honest_id:
        score += 2
    if s["junk"] != "none":
        score += 1
    return score


def key(c):
    n = len(c["srv"])
    f = max(range(1, n + 1), key=lambda ns: (weird(c, ns), ns))
    s = c["srv"][f - 1]
    sig = s["sig"]
    honest_id = {"v1": "i1", "v2": "i2", "v2f": "i1"}.get(sig["ver"], "none")
    ridc = "none" if s["rid"] == "none" else ("honest" if s["rid"] == honest_id else "other")
    role = "delegate" if f in c["delegates"] else "other"
    ra = sorted((r["ns"] == f, r["ver"]) for r in c["refsAt"]) if c.get("useRefsAt") else None
    return (c["mode"], json.dumps(ra), c.get("followAll", True), bool(c["blocked"]), c["local"] != 0, role,
            sig["ver"], sig["fl"], ridc, s["junk"], c["loc"][f - 1]["ver"], c["exp"]["result"])


def nontrivial(c):
    changed = any(l["sig"] != l0 for l, l0 in zip(c["exp"]["loc"], c["loc"]))
    return changed or any(weird(c, ns) > 0 for ns in range(1, len(c["srv"]) + 1))


def statement_checks(c, o):
    """C01 evaluated on the real before/after projections (no model involved)."""
    problems = []
    for ns, (b, a) in enumerate(zip(o["before"], o["after"]), 1):
        if a == b:
            continue
        if a["sig"] == "none":
            problems.append(f"namespace {ns} changed but has no rad/sigrefs")
            continue
        fl = a["sig"].split(".")[-1]
        if fl in ("forged", "rekeyed", "otherRepo") or a["sig"].startswith("?"):
            problems.append(f"namespace {ns} now holds sigrefs {a['sig']} (not validly signed for this repository)")
        if ns not in o.get("validAfter", []):
            problems.append(f"namespace {ns} changed and does not validate against its signed refs")
        # second sentence: what the peer offered for this namespace fails a check, yet it changed
        if not c.get("useRefsAt"):
            s = c["srv"][ns - 1]
            sf = s["sig"]["fl"]
            listed_id = s["sig"]["ver"] != "none" and sf != "noId"
            if s["sig"]["ver"] != "none" and (sf in ("forged", "rekeyed", "otherRepo", "ghost")
                                              or (s["rid"] != "none" and not listed_id and "id" not in b["refs"])):
                problems.append(f"namespace {ns} changed although its offered data ({s['sig']['ver']}.{sf}, rad/id {s['rid']}) fails a check")
    return problems


def run(ctx):
    thorough = ctx.tier == "thorough"
    ctx.build(F.ENGINE)
    threads = 8
    # 1. Design: every invariant of Fetch.tla on every state of the bounded families (D1 enabled =
    #    the code's behaviour, tolerated only where a root-less blob is involved); emits the cases.
    cfg = "MCFetch_t.cfg" if thorough else "MCFetch_q.cfg"
    res = F.tlc_cases(ctx, cfg, "exhaustive: families focus/refsat/scope" + ("/pair" if thorough else "") +
                      "; invariants C01_Match C01_Untouched BlockedUntouched OutOfScopeUntouched NoRewindAny C02_* ErrorBeforeApplyUnchanged; property C02_NoRewind",
                      timeout=2400 if thorough else 600)
    if res.violated:
        ctx.violation(f"model:{res.violated}", "Fetch.tla violates the invariant in the bounded model (design-level counterexample)",
                      {"tlc_counterexample": res.error_trace[:120]})
        return ctx.finish(rule=RULE)
    ctx.require_coverage(res, F.ACTIONS + ["StageSigrefsAt"])
    cases = res.cases
    if len(cases) < 1000:
        raise vlib.ToolError(f"TLC emitted only {len(cases)} cases")
    # vacuity guards
    results = {c["exp"]["result"] for c in cases}
    if not {"Success", "Failed", "Error"} <= results:
        raise vlib.ToolError(f"vacuous case set: results {results}")
    rejected_ns = sum(1 for c in cases if c["exp"]["result"] == "Success" and
                      any(s["sig"]["ver"] != "none" and l["sig"] == l0 and (s["sig"] != l0)
                          for s, l, l0 in zip(c["srv"], c["exp"]["loc"], c["loc"])))
    if rejected_ns == 0:
        raise vlib.ToolError("vacuous case set: no successful fetch leaves an offered namespace untouched")
    # 2. The design without any deviation satisfies C01 to the letter (D1 off) ...
    strict = ctx.tlc("MCFetch", "MCFetch_strict.cfg", workers=4, timeout=600, coverage=False, label="design with D1 disabled (root-less blobs refused): all invariants")
    ctx.tlc_ok(strict, "MCFetch_strict")
    if strict.violated:
        ctx.violation(f"model-strict:{strict.violated}", "Fetch.tla without deviations violates the invariant", {"tlc_counterexample": strict.error_trace[:120]})
        return ctx.finish(rule=RULE)
    # ... and the historical deviations (each repaired by a fix: commit) are rejected by TLC.
    F.expect_rejected(ctx, "MCFetch_dev.cfg", "C01_Match", "refs_at loading the advertised tip (pre e45f16a)")
    F.expect_rejected(ctx, "MCFetch_dev4.cfg", "C01_Match", "unloaded remotes skipping validation (pre 8b012aa)")
    if thorough:
        F.expect_rejected(ctx, "MCFetch_dev2.cfg", "BlockedUntouched", "announced sigrefs of blocked peers applied (pre 680f9a3)")
        F.expect_rejected(ctx, "MCFetch_dev3.cfg", "C01_Match", "rad/* never pruned (pre a18a1ad)")
    # 3. spec -> implementation
    ordered, nclasses = F.stratified(cases, key, 0, ctx.seed)
    if not thorough:
        ordered = ordered[:420]
    verdicts, stats, ran = F.replay(ctx, ordered, threads, int(os.environ.get('VERIF_FETCH_BUDGET', 600 if thorough else 60)))
    done = stats.get("evaluations", 0)
    if done < (25 if not thorough else 300):
        raise vlib.ToolError(f"only {done} scenarios replayed within the time budget")
    drift = 0
    for r in verdicts:
        if F.judge(ctx, PROP, r, statement_checks) == "drift":
            drift += 1
    F.known_noroot(ctx, PROP, ran, verdicts)
    ctx.cov["evaluations"] += done
    ctx.cov["traces_validated_against_impl"] += done
    ctx.cov["distinct_nontrivial"] += len({key(c) for c in ran if nontrivial(c)})
    ctx.cov["scenario_classes_in_model"] = nclasses
    ctx.cov["replay_stats"] = stats
    ctx.cov["model_drift_records"] = drift
    ctx.cov["model_drift_samples"] = getattr(ctx, "drift", [])[:5]
    ctx.cov["samples"] += [F.compact(c) + " => " + c["exp"]["result"] for c in ordered[:4]]
    ctx.cov["exhaustive"] = bool(thorough and stats.get("skipped_budget", 0) == 0)
    if drift:
        vlib.log(f"MODEL-DRIFT (not a violation): {drift} replayed scenarios where the real fetch refused more than the model")
    # 4. implementation -> spec
    n = 1200 if thorough else 90
    recorded, accepted, rdrift = F.record_and_validate(ctx, PROP, n, 4, threads, statement_checks,
                                                         budget_secs=240 if thorough else 60, at_least=200 if thorough else 30)
    ok = accepted == len(recorded)
    ctx.cov["traces_validated_against_impl"] += accepted
    ctx.cov["evaluations"] += len(recorded)
    ctx.cov["recorded_runs"] = len(recorded)
    ctx.cov["recorded_runs_accepted_by_tlc"] = accepted
    ctx.cov["model_drift_records"] += rdrift
    ctx.cov["model_drift_samples"] = getattr(ctx, "drift", [])[:5]
    ctx.cov["recorded_results"] = {k: sum(1 for r in recorded if r["out"]["result"] == k) for k in ("Success", "Failed", "Error", "Panic")}
    ctx.cov["samples"] += [F.compact({k: v for k, v in recorded[0].items() if k != "out"}) + " => " + recorded[0]["out"]["result"]]
    for r in recorded:
        sc = {k: v for k, v in r.items() if k != "out"}
        if r["out"].get("oracle"):
            ctx.violation(f"{PROP} oracle: {F.compact(sc)} -> {r['out']['result']} {'; '.join(r['out']['oracle'])[:200]}",
                          "validate_remote rejects a namespace changed by a recorded fetch", {"record": r})
        for l, l0 in zip(r["out"]["loc"], r["loc"]):
            if l["sig"]["fl"] == "noRoot" and l["sig"] != l0:
                ctx.violation(f"{PROP} noRoot-accepted: namespace takes a signed refs blob without refs/rad/root",
                              "SignedRefs::verify accepts a refs blob that names no repository", {"record": r})
    # binding self-test (thorough): a corrupted record must be rejected
    if thorough and ok:
        import copy
        mut = copy.deepcopy(recorded)
        tgt = next((r for r in mut if r["out"]["result"] == "Success" and r["out"]["events"]), None)
        if tgt is not None:
            tgt["out"]["events"][0]["k"] = "skipped" if tgt["out"]["events"][0]["k"] != "skipped" else "created"
            p = ctx.write_cases(mut, "rec-mut.ndjson")
            ok2, _, _ = ctx.validate("TraceFetch", "TraceFetch.cfg", p, timeout=3000, label="self-test: corrupted record must be rejected")
            ctx.cov["tlc_runs"][-1]["expected"] = "rejected"
            if ok2:
                raise vlib.ToolError("self-test: a corrupted recorded run was accepted by TraceFetch")
    ctx.cov["observations"] = F.observations(ctx)
    ctx.assumptions += ["git's object transfer is correct; Ed25519 is unforgeable (flavours forged / rekeyed stand for every invalid signature)",
                        "the git upload-pack child the harness talks to is what radicle-node's responder spawns (same arguments); the node's framing is not involved",
                        "the identity document (delegates, threshold) is the same on both sides and does not change during the fetch",
                        "one advertised state per fetch (the serving repository does not change between stages)",
                        "plain references the serving peer advertises are never consulted by a fetch; tampering with them is materialised but cannot fail a check (interpretation of 'advertised data')"]
    return ctx.finish(rule=RULE)


def replay(ctx, path):
    ctx.build(F.ENGINE)
    d = json.load(open(path))["replay"]
    c = d.get("case") or d.get("record") or d
    c = {k: v for k, v in c.items() if k not in ("out",)}
    p = ctx.write_cases([c], "one.ndjson")
    out = os.path.join(ctx.work, "one.out")
    ctx.engine(F.ENGINE, ["--mode", "run", "--cases", p, "--out", out, "--threads", 1])
    for r in ctx.read_ndjson(out):
        if "outcome" in r:
            print("scenario:", F.compact(c))
            if "exp" in c:
                print("model   :", c["exp"]["result"], json.dumps(c["exp"]["loc"]))
            print("real    :", r["outcome"]["result"], r["outcome"]["detail"])
            print("before  :", json.dumps(r["outcome"]["before"]))
            print("after   :", json.dumps(r["outcome"]["after"]))
            print("oracle  :", r["outcome"]["oracle"])
    ctx.cleanup()
    return 0
