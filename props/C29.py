"""C29 Node-signed announcement timestamps strictly increase (spec/Gossip.tla, spec/TraceGossip.tla)."""
import sys, os
sys.path.insert(0, os.path.dirname(__file__))
import gossip_common as g

RULE = ("same scripts as C10 (with forward, equal and backward clock settings interleaved with refs announcements, inventory updates and "
        "restarts); clause C29_NotIncreasing: every newly created own inventory / refs announcement carries a timestamp strictly greater "
        "than all earlier ones, evaluated by TLC at every recorded step")


def run(ctx):
    thorough = ctx.tier == "thorough"
    viols, stats = g.run_gossip(ctx, {"C29_"}, thorough)
    g.report(ctx, viols)
    # Unbounded complement (informational, never gating): TLAPS proof of spec/Timestamp.tla (the counter
    # alone, clock any natural number, stalls and backward settings allowed).
    import subprocess, re, os, shutil
    proof = {"ran": False}
    try:
        shutil.rmtree(os.path.join(g.vlib.SPEC, ".tlacache"), ignore_errors=True)
        p = subprocess.run(["timeout", "300", "tlapm", "--threads", "4", "Timestamp.tla"], cwd=g.vlib.SPEC,
                           stdout=subprocess.PIPE, stderr=subprocess.STDOUT, text=True)
        m = re.search(r"All (\d+) obligations proved", p.stdout)
        proof = {"ran": True, "all_proved": bool(m), "obligations": int(m.group(1)) if m else None,
                 "theorems": ["InvHolds", "C29 (Spec => StrictlyIncreasing)"], "prover": "tlapm 1.6.0-pre (SMT, Zenon, Isabelle, PTL)"}
        shutil.rmtree(os.path.join(g.vlib.SPEC, ".tlacache"), ignore_errors=True)
    except Exception as e:  # tool trouble is not a verdict
        proof = {"ran": False, "error": str(e)[:200]}
    stats["tlaps_unbounded_proof"] = proof
    ctx.cov["distinct_nontrivial"] = stats.get("runs", 0)
    ctx.cov["exhaustive"] = not stats.get("model_sampled", True)
    ctx.assumptions += ["the cached node announcement is not created by the timestamp counter and is excluded (statement: inventory and refs announcements)",
                        "re-sending the cached inventory announcement is not a new announcement"]
    return ctx.finish(rule=RULE, extra={"gossip": stats})


def replay(ctx, path):
    return g.replay(ctx, path)
