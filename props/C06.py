"""C06 Rejected collaborative-object changes leave no trace in the state (spec/Cob.tla)."""
import json
import os
import random
import vlib

ENGINE = "c06_cobreject"
IDENTITY_SIG = ("identity Identity::op keeps a change answering UnexpectedState because of a concurrent change "
                "that is pruned later (forged signature): history with the pruned sibling != history without it")


RF_CLASSES = [f"rf.{c}.{r}" for c in ("redactMissing", "editMissing", "reactMissing", "replyMissing", "badTitle") for r in "dg"] + ["rf.label.g"]


def compact(c):
    return f"deps={json.dumps(c['deps'], separators=(',', ':'))} ts={json.dumps(c['ts'], separators=(',', ':'))} cls={','.join(c['cls'])}"


def run(ctx):
    thorough = ctx.tier == "thorough"
    ctx.build(ENGINE)
    rnd = random.Random(ctx.seed)

    # 1. Design level. For every change graph of the bounded space: what is dropped is exactly the
    #    refused changes and their dependents, the result equals the evaluation of the cleaned
    #    history (C06_NoTrace), nothing of a dropped change shows in the object (C06_NoEffect), the
    #    order of the survivors is not disturbed by removing any dependents-closed set.
    runs = [("MCCob_rej_t.cfg", "every change graph on root+3 changes, ts 1..2, all six payload classes; theorems also on every dependency-closed part"),
            ("MCCob_rej_t4.cfg", "root+4 changes, ts 1..2, at most one not plainly valid change; every 16th graph emitted")] if thorough else \
           [("MCCob_rej_q.cfg", "every change graph on root+3 changes, ts 1..2, at most two changes not plainly valid (reply to concurrent comment, forged signature, refused action, later action refused)")]
    # graphs with detached changes (no dependency, not the root) and changes built on them
    runs.append(("MCCob_det_q.cfg", "root+3 changes, detached changes allowed, classes ok/badSig/rejectLater: detached changes and their dependents are dropped"))
    cases = []
    for cfg, label in runs:
        res = ctx.tlc("MCCob", cfg, workers=8, timeout=3000 if thorough else 900, coverage=False, heap="6g", label=label)
        ctx.tlc_ok(res, cfg)
        if res.violated:
            ctx.violation(f"model:{cfg}:{res.violated}", "the transcribed evaluation/pruning violates C06 in the bounded model",
                          {"tlc_counterexample": res.error_trace[:120]})
            return ctx.finish(rule=RULE)
        if not res.cases:
            raise vlib.ToolError(f"{cfg}: TLC emitted no cases")
        cases.append(res.cases)
    allc = [c for cs in cases for c in cs]
    # vacuity: graphs that prune something, prune dependents that are themselves valid, replies that
    # survive and replies that are refused
    pruned_valid = sum(1 for c in allc if any(c["cls"][k - 1] == "ok" and k not in c["hist"] for k in range(1, c["m"] + 1)))
    needs_kept = sum(1 for c in allc if any(c["cls"][k - 1] == "needs" and k in c["hist"] for k in range(1, c["m"] + 1)))
    needs_drop = sum(1 for c in allc if any(c["cls"][k - 1] == "needs" and k in c["rej"] for k in range(1, c["m"] + 1)))
    if not (pruned_valid and needs_kept and needs_drop and any(not c["rej"] for c in allc)):
        raise vlib.ToolError("vacuous case set")
    # every refused single action (cause x author role) must occur, with valid changes evaluated
    # after it (so that a leaked effect would be visible next to surviving ones)
    for rf in RF_CLASSES:
        if not any(rf in c["cls"] and len(c["hist"]) > 1 for c in allc):
            raise vlib.ToolError(f"vacuous case set: class {rf} never occurs next to surviving changes")

    # 2. Sanity (thorough; the soft variant below guards the quick tier against vacuity): the
    #    in-place application of the code as found must be rejected by TLC, and so must the
    #    evaluation that leaves detached changes in the graph.
    if thorough:
        dev = ctx.tlc("MCCob", "MCCob_dev.cfg", workers=2, timeout=300, coverage=False, count=False,
                      label="sanity: in-place application (Atomic = FALSE) must violate the theorems")
        if dev.violated != "TheoremsHold":
            raise vlib.ToolError("sanity run: the non-atomic model was not rejected by TLC")
        det = ctx.tlc("MCCob", "MCCob_det_dev.cfg", workers=2, timeout=300, coverage=False, count=False,
                      label="sanity: leaving detached changes in the graph (DropDetached = FALSE, the code as found) must violate the theorems")
        if det.violated != "TheoremsHold":
            raise vlib.ToolError("sanity run: the model that keeps detached changes was not rejected by TLC")
    # the "fast path" deviation (a single-action change applied in place): a refused edit of a
    # missing comment by a delegate leaves its timeline entry -- TLC must reject it
    fast = ctx.tlc("MCCob", "MCCob_fast_dev.cfg", workers=2, timeout=300, coverage=False, count=False,
                   label="sanity: single-action changes applied in place (SingleInPlace = TRUE) must violate the theorems")
    if fast.violated != "TheoremsHold":
        raise vlib.ToolError("sanity run: the single-action fast-path model was not rejected by TLC")
    # ... and so is the Identity::op leniency towards concurrent changes (open finding, see 5.)
    soft = ctx.tlc("MCCob", "MCCob_soft.cfg", workers=2, timeout=300, coverage=False, count=False,
                   label="identity objects: UnexpectedState ignored when a concurrent change exists -- TLC finds the C06 counterexample")
    if soft.violated != "TheoremsHold":
        raise vlib.ToolError("identity-leniency model was not rejected by TLC")

    # 3. spec -> implementation.
    inter = lambda cs: [c for c in cs if c["rej"]]
    patchable = lambda cs: [c for c in cs if "rf.badTitle.d" not in c["cls"]]   # patches do not validate titles
    detc = [c for c in cases[-1] if any(len(d) == 0 for d in c["deps"])]
    if not detc:
        raise vlib.ToolError("no case with a detached change")
    # every refused single action is represented in every sample (stratified part)
    def strat(cs, n):
        out = []
        for rf in RF_CLASSES:
            pool = [c for c in cs if rf in c["cls"] and len(c["hist"]) > 1]
            out += rnd.sample(pool, min(n, len(pool)))
        return out
    if thorough:
        todo = [("issue", strat(cases[0], 400) + rnd.sample(cases[0], 24000) + rnd.sample(cases[1], 10000) + detc),
                ("patch", strat(patchable(cases[0]), 100) + rnd.sample(patchable(inter(cases[0])), 4000) + rnd.sample(patchable(inter(cases[1])), 2000) + rnd.sample(detc, 300))]
    else:
        todo = [("issue", strat(cases[0], 60) + rnd.sample(inter(cases[0]), 1200) + rnd.sample(cases[0], 200) + rnd.sample(detc, 200)),
                ("patch", strat(patchable(cases[0]), 15) + rnd.sample(patchable(inter(cases[0])), 300) + rnd.sample(detc, 60))]
    drift = 0
    nontrivial = 0
    for kind, cs in todo:
        path = ctx.write_cases(cs, f"cases-{kind}.ndjson")
        out = os.path.join(ctx.work, f"verdicts-{kind}.ndjson")
        ctx.engine(ENGINE, ["--mode", "replay", "--cases", path, "--out", out, "--procs", 8, "--kind", kind, "--closures", 2],
                   timeout=3000 if thorough else 900)
        recs = ctx.read_ndjson(out)
        summary = [r for r in recs if r.get("summary")][0]
        if summary["graphs"] + summary.get("skipped", 0) != len(cs) or summary.get("skipped", 0):
            raise vlib.ToolError(f"replay {kind}: {summary['graphs']} graphs replayed, {len(cs)} expected")
        for r in recs:
            if r.get("summary"):
                continue
            if not r["ok"]:
                c = r["case"]
                ctx.violation(f"{r['sig']} {compact(c)} closure={r['closure']}", r["detail"], {"kind": kind, "case": c, "verdict": r})
        drift += summary["drift"]
        nontrivial += summary["nontrivial"]
        ctx.cov["evaluations"] += summary["evaluations"]
        ctx.cov["traces_validated_against_impl"] += summary["graphs"]
        ctx.cov["samples"] += [c for c in cs if c["rej"]][:2]
    ctx.cov["distinct_nontrivial"] = nontrivial
    ctx.cov["exhaustive"] = False   # TLC enumerates the bounded spaces completely; the replay samples them
    ctx.cov["drift_replay"] = drift

    # 4. implementation -> spec: random larger graphs with all payload classes, partial closures;
    #    each record holds the view and the view of the cleaned history.
    rec = os.path.join(ctx.work, "rec.ndjson")
    ctx.engine(ENGINE, ["--mode", "record", "--n", 2500 if thorough else 180, "--m", 9, "--out", rec, "--kind", "issue"])
    recorded = ctx.read_ndjson(rec)
    if not any(len(r["view"]["hist"]) > 1 and "clean" in r and len(r["view"]["hist"]) < r["m"] + 1 for r in recorded):
        raise vlib.ToolError("recorded trace is vacuous")
    ok, info, tres = ctx.validate("TraceCob", "TraceCob.cfg", rec, timeout=3000 if thorough else 900)
    if not ok:
        at = tres.distinct - 1
        bad = recorded[at - 1] if 0 < at <= len(recorded) else None
        ctx.violation(f"recorded {info.get('violated')} {compact(bad) if bad else ''} refs={bad and bad['refs']}",
                      "a recorded evaluation is outside the statement, or differs from the evaluation of its cleaned history",
                      {"record": bad, "tlc": info})
    else:
        ctx.cov["traces_validated_against_impl"] += len(recorded)
        ctx.cov["evaluations"] += 2 * len(recorded)
        ctx.cov["samples"] += recorded[:1]
    ok2 = True
    if thorough:
        ok2, _, _ = ctx.validate("TraceCob", "TraceCob_alg.cfg", rec, timeout=3000, label="drift (informational)")
        ctx.cov["drift_recorded_trace_rejected"] = (not ok2)
    if drift or not ok2:
        vlib.log("MODEL-DRIFT (not a violation): the implementation's evaluation differs from the transcribed algorithm")

    # 5. Identity objects (DESIGN.md section 7): the counterexample TLC finds for the "soft" class,
    #    replayed against a real identity object.
    idp = os.path.join(ctx.work, "identity.ndjson")
    ctx.engine(ENGINE, ["--mode", "identity", "--out", idp])
    probe = ctx.read_ndjson(idp)[0]
    ctx.cov["identity_probe"] = probe
    if any("error" in probe[k] for k in ("x_with_forged_sibling_evaluated_later", "x_with_forged_sibling_evaluated_earlier", "x_alone")):
        raise vlib.ToolError(f"identity probe failed: {probe}")
    if probe["differs"]:
        ctx.violation(IDENTITY_SIG,
                      f"real Identity: vote X on the accepted root revision + concurrent forged change Y (evaluated after X): {probe['x_with_forged_sibling_evaluated_later']}; "
                      f"X alone (= the history without the pruned Y): {probe['x_alone']}", {"identity_probe": probe})

    # 6. binding self-test (thorough): a corrupted record must be rejected
    if thorough:
        bad = [dict(r) for r in recorded[:60]]
        i = next((k for k, r in enumerate(bad) if "clean" in r and len(r["view"]["log"]) >= 1), None)
        if i is not None:
            c = dict(bad[i]["clean"])
            c["log"] = c["log"][:-1]
            bad[i]["clean"] = c
            p = ctx.write_cases(bad, "selftest.ndjson")
            ok3, _, _ = ctx.validate("TraceCob", "TraceCob.cfg", p, timeout=600, label="self-test: corrupted record must be rejected")
            if ok3:
                raise vlib.ToolError("self-test: a record whose cleaned view differs was accepted by TraceCob")
    ctx.assumptions += [
        "invalid changes are realised as: forged signature; bad title; redaction of / reply to a missing comment; label by a non-delegate; redaction of the root or of a missing revision (patches)",
        "issues and patches; identity objects only through the fixed probe of step 5 (cob/identity.rs is covered by C04)",
        "debug build: multi-action changes touching the thread twice trip debug assertions in thread.rs and are not generated",
        "detached changes: a change commit without parent changes, and changes built on it, reachable from some reference",
    ]
    return ctx.finish(rule=RULE)


RULE = ("cases = change graphs with payload classes enumerated by TLC from MCCob; each is written as real change commits of a real "
        "issue (a sample as a patch); for the whole graph and two random dependency-closed parts the real cob::get is run from the "
        "tips and again from the tips of the history it returned; violation = an invalid change or a dependent of one in the history, "
        "a valid one missing, any visible effect of a dropped change, or a difference between the two evaluations; non-trivial = "
        "something was pruned; plus random larger graphs recorded from the implementation and validated by TLC")


def replay(ctx, path):
    ctx.build(ENGINE)
    d = json.load(open(path))["replay"]
    if "case" in d:
        p = ctx.write_cases([d["case"]], "one.ndjson")
        out = os.path.join(ctx.work, "o.ndjson")
        ctx.engine(ENGINE, ["--mode", "replay", "--cases", p, "--out", out, "--procs", 1, "--kind", d.get("kind", "issue"), "--closures", 8])
        for r in ctx.read_ndjson(out):
            print(json.dumps(r))
    elif "identity_probe" in d:
        out = os.path.join(ctx.work, "o.ndjson")
        ctx.engine(ENGINE, ["--mode", "identity", "--out", out])
        for r in ctx.read_ndjson(out):
            print(json.dumps(r))
    else:
        print(json.dumps(d, indent=1)[:4000])
    ctx.cleanup()
    return 0
