"""C19 Identity documents are always valid and bound to the repository id (spec/Doc.tla)."""
import json
import os
import vlib

ENGINE = "c19_doc"
INVS = "AcceptedIsValid FoldIsDedupThenLimit AcceptIffRules RefusedJson RoundTrip RidIsInitialDoc FuncAgrees"

RULE = ("cases = every verdict of the bounded families 'fields' (5 short delegate lists x 9 threshold classes x 5 version classes x "
        "5/8 payload classes x 5 visibility classes x unknown field, + missing / malformed delegates) and 'lists' (14 delegate lists "
        "at the 255 limit x 8 thresholds, followed by one edit: delegate / rescind / threshold), each rendered as real JSON text and "
        "taken through Doc::from_blob (real git blob), serde_json::from_slice::<Doc>, RawDoc::from_json + verified and "
        "Doc::with_edits; gating = C19 on the real document (1..=255 distinct delegates, 1 <= threshold <= delegates, version 1), "
        "decode(encode(doc)) == doc, encode output == independently built canonical text, object id / RepoId of Repository::init "
        "== independent SHA-1 git blob hash of that text; non-trivial = accepted documents (all of which are re-encoded, decoded "
        "and hashed); the 'small' family (limit scaled to 3, every list of <= 5 entries) is design-level only; plus random "
        "documents and edit sequences recorded from the implementation and validated by TLC")


def sig_of(r, b):
    if b.startswith("roundtrip-differs non-nfc"):
        return "doc " + b
    j = dict(r["json"])
    return f"doc json={json.dumps(j, sort_keys=True, separators=(',', ':'))} edits={json.dumps(r['edits'], separators=(',', ':'))} -> {b[:160]}"


def run(ctx):
    thorough = ctx.tier == "thorough"
    ctx.build(ENGINE)
    # 1. design level: three families
    small = ctx.tlc("MCDoc", "MCDoc_small_t.cfg" if thorough else "MCDoc_small_q.cfg", workers=4, timeout=1800, coverage=True,
                    label=f"exhaustive (limit scaled to 3, every delegate list of <= 5 over 4 DIDs, thresholds 0..6, one edit): {INVS}")
    ctx.tlc_ok(small, "MCDoc small")
    cases = []
    runs = [("small", small)]
    for cfg, what in (("MCDoc_fields_t.cfg" if thorough else "MCDoc_fields_q.cfg", "fields"), ("MCDoc_lists_t.cfg" if thorough else "MCDoc_lists_q.cfg", "lists")):
        res = ctx.tlc("MCDoc", cfg, workers=4, timeout=1800, coverage=False, label=f"exhaustive ({what}, limit 255): {INVS}")
        ctx.tlc_ok(res, f"MCDoc {what}")
        runs.append((what, res))
        cases += res.cases
    for what, res in runs:
        if res.violated:
            ctx.violation(f"model:{what}:{res.violated}", "the transcribed document rules violate the statement in the bounded model",
                          {"tlc_counterexample": res.error_trace[:60]})
            return ctx.finish(rule=RULE)
    ctx.require_coverage(small, ["Deserialize", "Verify", "InitRepo"] + (["Edit"] if thorough else []))
    # dedupe (a verdict is emitted before and after InitRepo) and choose the documents to initialise
    seen, uniq = set(), []
    for c in cases:
        k = json.dumps([c["json"], c["edits"]], sort_keys=True)
        if k in seen:
            continue
        seen.add(k)
        uniq.append(c)
    cases = uniq
    budget = 200 if thorough else 40
    for i, c in enumerate(cases):
        c["init"] = False
    cand = [c for c in cases if c["accepted"] and not c["edits"] and c["doc"]["delegates"][0] == 1 and c["json"]["payload"] not in ("float", "nonnfc")]
    step = max(1, len(cand) // budget)
    for c in cand[::step][:budget]:
        c["init"] = True
    # vacuity
    def count(p):
        return sum(1 for c in cases if p(c))
    if not (count(lambda c: c["accepted"]) and count(lambda c: c["errk"] == "json") and count(lambda c: c["errk"] == "delegates")
            and count(lambda c: c["errk"] == "threshold") and count(lambda c: c["accepted"] and len(c["json"]["dels"]) > 255)
            and count(lambda c: c["accepted"] and len(c["doc"]["delegates"]) == 255) and count(lambda c: c["edits"] and not c["accepted"])):
        raise vlib.ToolError("vacuous case set")
    # 2. a wrong reading of the rules must be refuted by TLC
    dev = ctx.tlc("MCDoc", "MCDoc_dev.cfg", workers=2, timeout=600, coverage=False, count=False,
                  label="sanity: 'limit applies to the raw list length' must be refuted (LimitOnRawLength)")
    if dev.violated != "LimitOnRawLength":
        raise vlib.ToolError("sanity run: LimitOnRawLength was not refuted")
    # 3. spec -> implementation
    cpath = ctx.write_cases(cases)
    out = os.path.join(ctx.work, "verdicts.ndjson")
    ctx.engine(ENGINE, ["--mode", "replay", "--cases", cpath, "--out", out], timeout=3000)
    recs = ctx.read_ndjson(out)
    summary = [r for r in recs if r.get("summary")][0]
    for r in recs:
        if r.get("summary") or r["ok"]:
            continue
        for b in r["breaches"]:
            ctx.violation(sig_of(r, b), f"real document code: {b}", {k: r[k] for k in ("json", "full", "edits", "text", "breaches", "expected", "actual")})
    if summary["unsupported_version_only_objection"] == 0:
        raise vlib.ToolError("vacuous: no case in which an unsupported version is the only objection to the document")
    if summary["repositories_initialised"] == 0 or summary["canonical_text_checked"] == 0:
        raise vlib.ToolError("no repository was initialised / no canonical text compared")
    ctx.cov["evaluations"] += summary["evaluations"]
    ctx.cov["distinct_nontrivial"] += summary["accepted"]
    ctx.cov["traces_validated_against_impl"] += len(cases)
    ctx.cov["samples"] += [{k: c[k] for k in ("json", "edits", "accepted", "errk")} for c in cases if c["json"]["payload"] == "custom" and c["accepted"]][:2]
    ctx.cov["exhaustive"] = True
    ctx.cov["drift_replay"] = summary["drift"]
    ctx.cov["replay_detail"] = {k: summary[k] for k in ("accepted", "rejected", "roundtrips", "encode_refused", "canonical_text_checked", "repositories_initialised",
                                                         "unsupported_version_texts", "unsupported_version_only_objection")}
    # 4. implementation -> spec
    rec = os.path.join(ctx.work, "rec.ndjson")
    ctx.engine(ENGINE, ["--mode", "record", "--n", 20000 if thorough else 2500, "--out", rec], timeout=3000)
    recorded = ctx.read_ndjson(rec)
    ok, info, tres = ctx.validate("TraceDoc", "TraceDoc.cfg", rec, timeout=3000, label="trace validation: NoPanic AcceptedIsValid + drift invariant FuncAgrees")
    drift_trace = False
    if not ok and info.get("violated") == "FuncAgrees":
        drift_trace = True
        ok, info, tres = ctx.validate("TraceDoc", "TraceDoc_gate.cfg", rec, timeout=3000, label="trace validation: NoPanic AcceptedIsValid")
    if not ok:
        at = tres.distinct - 1
        bad = recorded[at - 1] if 0 < at <= len(recorded) else None
        b = bad or {}
        ctx.violation(f"recorded doc json={json.dumps(b.get('json'), sort_keys=True, separators=(',', ':'))[:300]} edits={json.dumps(b.get('edits'))} -> violates {info.get('violated')}",
                      f"recorded verdict violates {info.get('violated')}", {"record": bad, "tlc": info})
    else:
        ctx.cov["traces_validated_against_impl"] += len(recorded)
        ctx.cov["evaluations"] += len(recorded)
        ctx.cov["distinct_nontrivial"] += sum(1 for r in recorded if r["accepted"])
        ctx.cov["samples"] += [r for r in recorded if r["accepted"] and r["edits"]][:1]
    ctx.cov["drift_recorded_trace_rejected"] = drift_trace
    if summary["drift"] or drift_trace:
        vlib.log(f"MODEL-DRIFT (not a violation): verdicts differ from the transcribed rules (replay: {summary['drift']}, recorded trace rejected: {drift_trace})")
    ctx.assumptions += ["DIDs are opaque: did:key encoding / decoding is C21's subject; malformed DID strings are one class ('bad' delegates)",
                        "payload contents are classes (project, custom nested JSON, empty, invalid type name, non-NFC string, float); canonical JSON in general is C18's subject",
                        "the reference canonical text is built by the harness for this document family (sorted keys, no whitespace, version and public visibility omitted)",
                        "documents whose payload contains a float are accepted but cannot be encoded (Doc::encode returns an error): counted under replay_detail.encode_refused, not a verdict"]
    return ctx.finish(rule=RULE)


def replay(ctx, path):
    ctx.build(ENGINE)
    d = json.load(open(path))["replay"]
    c = d.get("full")
    if c is None:
        print("recorded-trace violation: the record is in the replay file; re-run ./check C19")
        print(json.dumps(d)[:2000])
        ctx.cleanup()
        return 0
    p = ctx.write_cases([c], "one.ndjson")
    out = os.path.join(ctx.work, "o.ndjson")
    ctx.engine(ENGINE, ["--mode", "replay", "--cases", p, "--out", out])
    bad = False
    for x in ctx.read_ndjson(out):
        x.pop("full", None)
        print(json.dumps(x, ensure_ascii=False))
        bad |= (not x.get("summary")) and not x["ok"]
    ctx.cleanup()
    return 1 if bad else 0
