"""C16 At most one fetch per repository, attributed to the right peer (spec/FetchSched.tla, TraceFetchSched.tla)."""
import json
import os
import random
import subprocess
import vlib

ENGINE = "c16_fetchsched"

RULE = ("scripts = one behaviour per reachable state of the bounded design model MCFetchSched (connect/disconnect/reconnect, fetch commands, "
        "announcement-triggered fetches, worker results in any order incl. after disconnect+reconnect, idle) + scripted regressions + seeded "
        "random longer scenarios (3 peers, 3 repositories, capacity 1-2); each executed on the real Service with the harness as worker pool; "
        "every recorded step checked by TLC against TraceFetchSched (C16_OneLive, C16_Attribution, C16_Capacity, C16_Panic)")


def model_to_script(i, ops):
    return {"run": f"m{i}", "peers": 2, "repos": 2, "capacity": 1, "rng": 7 + i % 5, "persistent": [2],
            "ops": [list(op) for op in ops]}


def random_script(rng, i):
    npeers = rng.randint(2, 3)
    nrepos = rng.randint(1, 3)
    persistent = rng.choice([[], [], [1], [2], [1, 2]])      # few instances: one strict-conformance run per (capacity, persistent set)
    ops = []
    conn = set()
    nf = 0
    for _ in range(rng.randint(12, 45)):
        x = rng.random()
        if conn and rng.random() < 0.05:
            ops.append(["stale_disconnect", rng.choice(sorted(conn))])
        if persistent and x < 0.10:
            # dial progress / reconnection timer of persistent peers
            ops.append(rng.choice([["attempted", rng.choice(persistent)], ["idle"], ["dialfail", rng.choice(persistent)]]))
        elif x < 0.15 or not conn:
            cand = [p for p in range(1, npeers + 1) if p not in conn]
            if cand:
                p = rng.choice(cand)
                conn.add(p)
                ops.append(["connect", p])
        elif x < 0.27:
            p = rng.choice(sorted(conn))
            conn.discard(p)
            ops.append(["disconnect", p])
            if rng.random() < 0.6:
                conn.add(p)
                ops.append(["connect", p])       # reconnect right away
        elif x < 0.52:
            ops.append(["fetch", rng.randint(1, nrepos), rng.randint(1, npeers)])
            nf += 1
        elif x < 0.67:
            ops.append(["annfetch", rng.randint(1, nrepos), rng.choice(sorted(conn))])
            nf += 1
        elif x < 0.93:
            if nf:
                ops.append(["done", rng.randint(1, nf), rng.choice(["ok", "ok", "err", "timeout"])])
        else:
            ops.append(["idle"])
    return {"run": f"r{i}", "peers": npeers, "repos": nrepos, "capacity": rng.choice([1, 1, 2]), "rng": rng.randint(1, 1000),
            "persistent": persistent, "ops": ops}


def scripted():
    return [
        {"run": "s-late-other-peer", "peers": 2, "repos": 1, "capacity": 1, "ops": [["connect", 1], ["connect", 2], ["fetch", 1, 1], ["disconnect", 1],
         ["connect", 1], ["fetch", 1, 2], ["done", 1, "ok"], ["fetch", 1, 1], ["done", 2, "ok"], ["idle"]]},
        {"run": "s-late-same-peer", "peers": 1, "repos": 1, "capacity": 1, "ops": [["connect", 1], ["fetch", 1, 1], ["disconnect", 1], ["connect", 1],
         ["fetch", 1, 1], ["done", 1, "ok"], ["fetch", 1, 1], ["done", 2, "ok"], ["done", 3, "ok"]]},
        {"run": "s-queue-full", "peers": 2, "repos": 2, "capacity": 1, "ops": [["connect", 1], ["connect", 2], ["fetch", 1, 1]] + [["fetch", 2, 1] for i in range(135)]
         + [["annfetch", 2, 1], ["done", 1, "ok"], ["idle"], ["done", 2, "ok"], ["disconnect", 1], ["connect", 1], ["fetch", 1, 1]]},
        {"run": "s-persistent", "peers": 2, "repos": 2, "capacity": 1, "persistent": [1], "ops": [["fetch", 1, 1], ["attempted", 1], ["fetch", 1, 1], ["connect", 1],
         ["fetch", 1, 1], ["connect", 2], ["fetch", 2, 2], ["disconnect", 1], ["fetch", 1, 1], ["fetch", 2, 1], ["wake", 70000], ["fetch", 1, 1], ["attempted", 1],
         ["fetch", 1, 1], ["fetch", 2, 1], ["connect", 1], ["done", 1, "ok"], ["fetch", 1, 1], ["done", 2, "ok"], ["idle"], ["done", 3, "ok"]]},
        {"run": "s-conflict-teardown", "peers": 2, "repos": 1, "capacity": 1, "ops": [["connect", 1], ["connect", 2], ["fetch", 1, 1], ["stale_disconnect", 1],
         ["fetch", 1, 2], ["fetch", 1, 1], ["done", 1, "ok"], ["idle"], ["done", 2, "ok"]]},
        {"run": "s-queue", "peers": 2, "repos": 2, "capacity": 1, "ops": [["connect", 1], ["connect", 2], ["fetch", 1, 1], ["fetch", 2, 1], ["fetch", 1, 2],
         ["fetch", 2, 2], ["done", 1, "ok"], ["done", 2, "timeout"], ["idle"], ["done", 3, "ok"], ["done", 4, "ok"]]},
    ]


def session_links_proof(ctx):
    """Unbounded complement (informational, never gating): TLAPS proof of spec/SessionLinks.tla -- for any set of
    peers, the service believes a peer connected exactly when a connection exists and the session records its link."""
    import re
    import shutil
    try:
        d = os.path.join(ctx.work, "tlaps")
        os.makedirs(d, exist_ok=True)
        shutil.copy(os.path.join(vlib.SPEC, "SessionLinks.tla"), d)
        p = subprocess.run(["timeout", "300", "tlapm", "--threads", "4", "SessionLinks.tla"], cwd=d,
                           stdout=subprocess.PIPE, stderr=subprocess.STDOUT, text=True)
        m = re.search(r"All (\d+) obligations proved", p.stdout)
        return {"ran": True, "all_proved": bool(m), "obligations": int(m.group(1)) if m else None,
                "theorems": ["Safety (Spec => [](TypeOK /\\ SessionHasConnection /\\ LinkRecorded /\\ NoDialWhileOut))"],
                "prover": "tlapm 1.6.0-pre (SMT, Zenon, Isabelle, PTL)"}
    except Exception as e:  # tool trouble is not a verdict
        return {"ran": False, "error": str(e)[:200]}


def execute(ctx, scripts, tag=""):
    """Runs the scripts on the real Service (engine c16_fetchsched, 12 processes) and validates the log against
    the observer TraceFetchSched. Returns (event lines, TLC result of the observer)."""
    nshards = 12
    procs = []
    for i in range(nshards):
        sp = os.path.join(ctx.work, f"{tag}scripts{i}.ndjson")
        with open(sp, "w") as f:
            for s in scripts[i::nshards]:
                f.write(json.dumps(s, separators=(",", ":")) + "\n")
        ep = os.path.join(ctx.work, f"{tag}events{i}.ndjson")
        procs.append((ep, subprocess.Popen([ctx.bin(ENGINE), "--scripts", sp, "--out", ep], cwd=ctx.work,
                                           stdout=subprocess.PIPE, stderr=subprocess.PIPE, text=True)))
    for ep, pr in procs:
        try:
            _, err = pr.communicate(timeout=3000)
        except subprocess.TimeoutExpired:
            pr.kill()
            raise vlib.ToolError("engine timed out")
        if pr.returncode != 0:
            raise vlib.ToolError(f"engine failed rc={pr.returncode}: {err[-2000:]}")
    merged = os.path.join(ctx.work, f"{tag}events.ndjson")
    events = []
    with open(merged, "w") as out:
        for ep, _ in procs:
            for line in open(ep):
                out.write(line)
                events.append(line)
    ok, info, tres = ctx.validate("TraceFetchSched", "TraceFetchSched.cfg", merged, timeout=3000, heap="8g")
    if not ok:
        raise vlib.ToolError(f"trace validation did not consume the whole log: {info}")
    return events, tres


def c13_part(ctx):
    """C13 on the fetch scheduler: no interleaving of connections, disconnections (also of the link that is not the
    session's), announcements, fetch commands and results makes the service panic (debug assertions included)."""
    thorough = ctx.tier == "thorough"
    ctx.build(ENGINE)
    rng = random.Random(ctx.seed * 7927 + 1)
    scripts = scripted() + [random_script(rng, i) for i in range(3000 if thorough else 600)]
    events, tres = execute(ctx, scripts, tag="c13-")
    where, cur = {}, None
    for n, line in enumerate(events, start=1):
        if line.startswith('{"ev":"init"'):
            cur = json.loads(line)["run"]
        where[n] = cur
    runs = {s["run"]: s for s in scripts}
    for c in tres.cases:
        for v in c["viol"]:
            if v["c"] == "C16_Panic":
                run_id = where.get(c["at"])
                ctx.violation(f"C13_Panic:sched:{c['op'][0]}:{'already-fetching' if 'is_fetching' in v['why'] or 'already be fetching' in v['why'] else 'other'}",
                              f"run {run_id} step {json.dumps(c['op'])}: the service panicked while scheduling fetches: {v['why'][:300]}",
                              {"engine": ENGINE, "script": runs.get(run_id), "op": c["op"]})
    ctx.cov["traces_validated_against_impl"] += len(scripts)
    return {"sched_runs": len(scripts), "sched_steps": sum(1 for e in events if e.startswith('{"ev":"step"'))}


def run(ctx):
    thorough = ctx.tier == "thorough"
    ctx.build(ENGINE)
    cfg = "MCFetchSched_t.cfg" if thorough else "MCFetchSched_q.cfg"
    res = ctx.tlc("MCFetchSched", cfg, workers=1, timeout=3000 if thorough else 600, coverage=True, heap="8g",
                  label="design model, exhaustive: C16_OneLive, C16_TableIsLive, C16_Capacity, C16_SessionConsistent, C16_Attribution, SessionHasConnection, LinkRecorded (the service still matches results by repository and peer only; the wire gate makes that sufficient)")
    ctx.tlc_ok(res, "MCFetchSched")
    if res.violated:
        ctx.violation(f"model:{res.violated}", "the design model violates the invariant", {"tlc": res.error_trace[:120]})
        return ctx.finish(rule=RULE)
    ctx.require_coverage(res, ["Attempt", "Connect", "Disconnect", "StaleDisconnect", "DialFail", "FetchCmd", "AnnFetch", "Wake", "Done"])
    for name, cfgd, inv in (("late-forwarded + late-same-peer", "MCFetchSched_dev1.cfg", "C16_Attribution"), ("late-forwarded + late-any-peer", "MCFetchSched_dev2.cfg", "C16_OneLive"),
                            ("stale-link", "MCFetchSched_dev3.cfg", "SessionHasConnection")):
        dev = ctx.tlc("MCFetchSched", cfgd, workers=1, timeout=900, coverage=False, count=False, heap="8g",
                      label=f"sanity: deviation {name} must violate {inv}")
        if dev.violated != inv:
            raise vlib.ToolError(f"sanity run: deviation {name} was not rejected by TLC ({dev.violated})")
    # liveness of the design model, beyond the listed property (informational): no queued fetch starves,
    # every started fetch is eventually completed or abandoned (weak fairness of workers and idle wake-ups)
    live = ctx.tlc("MCFetchSched", "MCFetchSched_live_t.cfg" if thorough else "MCFetchSched_live.cfg", workers=8, timeout=3000 if thorough else 600,
                   coverage=False, heap="8g", label="design model liveness: QueueDrains, TasksComplete, PersistentRedialled under LiveSpec (informational)")
    liveness = {"checked": not live.timed_out, "violated": live.violated, "distinct_states": live.distinct,
                "properties": ["QueueDrains", "TasksComplete", "PersistentRedialled"]}
    lived = ctx.tlc("MCFetchSched", "MCFetchSched_live_dev.cfg", workers=8, timeout=600, coverage=False, count=False, heap="8g",
                    label="sanity: deviation stale-link must violate the liveness property PersistentRedialled")
    if not lived.timed_out and not (lived.violated and "emporal" in str(lived.violated)):
        raise vlib.ToolError(f"sanity run: deviation stale-link did not violate PersistentRedialled ({lived.violated})")
    if live.violated:
        vlib.log(f"design-model liveness property violated (informational, beyond C16): {live.violated}")
    behaviours = [c["ops"] for c in res.cases if c.get("ops")]
    rng = random.Random(ctx.seed)
    limit = 15000 if thorough else 3000
    sampled = len(behaviours) > limit
    if sampled:
        behaviours = rng.sample(behaviours, limit)
    scripts = scripted() + [model_to_script(i, b) for i, b in enumerate(behaviours)]
    nrand = 3000 if thorough else 500
    rng = random.Random(ctx.seed * 104729 + 3)
    scripts += [random_script(rng, i) for i in range(nrand)]
    events, tres = execute(ctx, scripts)
    runs = {s["run"]: s for s in scripts}
    where, cur, steps, fetches, applied_late = {}, None, 0, 0, 0
    nontrivial = set()
    for n, line in enumerate(events, start=1):
        e = json.loads(line)
        if e["ev"] == "init":
            cur = e["run"]
        else:
            steps += 1
            fetches += len(e["fetches"])
            if e["op"][0] == "done" and e["info"].get("forwarded"):
                nontrivial.add(cur)
        where[n] = cur
    for c in tres.cases:
        for v in c["viol"]:
            run_id = where.get(c["at"])
            ctx.violation(f"{v['c']}:{v['why'] if v['c'] != 'C16_Panic' else v['why'].split(':')[0]}",
                          f"run {run_id} step {json.dumps(c['op'])}: {v['c']} ({v['why']}) task {v['gid']} / {v['other']}",
                          {"script": runs.get(run_id), "op": c["op"]})
    # Strict conformance of the design model (informational: drift, not a violation): the executions of the
    # model's own behaviours must be behaviours of FetchSched.tla's ACTIONS with the observed fetch table,
    # session states, fetching sets, queue lengths and emitted fetches (spec/TraceFetchSchedOp.tla).
    conformance = model_conformance(ctx, events, thorough)
    # wire level: the same clauses with the REAL Wire::worker_result gate and Io::Fetch -> Task translation
    import importlib.util
    spec = importlib.util.spec_from_file_location("wire_common_for_c16", os.path.join(os.path.dirname(__file__), "wire_common.py"))
    W = importlib.util.module_from_spec(spec)
    spec.loader.exec_module(W)
    wcases, wscripts, wwhere, wstats = W.run_wire(ctx, thorough)
    for c in wcases:
        for v in c["viol"]:
            run_id = wwhere.get(c["at"])
            ctx.violation(f"{v['c']}:{v['why'] if v['c'] != 'C16_Panic' else v['why'].split(':')[0]}",
                          f"wire-level run {run_id} step {json.dumps(c['op'])}: {v['c']} ({v['why']}) task {v['gid']} / {v['other']}",
                          {"engine": "c13_wire", "script": wscripts.get(run_id), "op": c["op"]})
    ctx.cov["traces_validated_against_impl"] += len(scripts)
    ctx.cov["evaluations"] += steps
    ctx.cov["distinct_nontrivial"] = len(nontrivial)
    ctx.cov["samples"] += [scripts[len(scripted())], scripts[-1]]
    ctx.cov["exhaustive"] = not sampled
    ctx.assumptions += ["service-level runs apply the rule of Wire::worker_result in the harness (a result is forwarded iff its peer is connected through the connection the task was started on); the wire-level runs execute the real Wire (peers registered through the verif_established hook, no sockets)",
                        "a reconnect is a disconnect followed by a connect",
                        "the repository's Peer test double drives the same Service code as the runtime"]
    return ctx.finish(rule=RULE, extra={"fetches_emitted": fetches, "model_behaviours": len(behaviours), "random_runs": nrand, "wire_level": wstats, "model_conformance": conformance,
                                        "liveness_beyond_listed_property": liveness,
                                        "tlaps_unbounded_proof_session_links": session_links_proof(ctx)})


def model_conformance(ctx, events, thorough):
    """Strict conformance (informational): the executions of the model's behaviours AND of the seeded random
    scenarios (3 peers, 3 repositories, capacity 1-2, persistent peers) must be behaviours of FetchSched.tla's
    actions. One log per instance (fetch capacity, set of persistent peers); scripted regressions are left out
    (they use timer values the model does not have)."""
    groups, cur, budget_m, budget_r = {}, None, (15000 if thorough else 3000), (3000 if thorough else 500)
    nm = nr = 0
    for line in events:
        if line.startswith('{"ev":"init"'):
            e = json.loads(line)
            rid = str(e["run"])
            cur = None
            if rid.startswith("m") and nm < budget_m:
                nm += 1
                cur = (e["capacity"], tuple(e["persistent"]))
            elif rid.startswith("r") and nr < budget_r:
                nr += 1
                cur = (e["capacity"], tuple(e["persistent"]))
            if cur is not None:
                groups.setdefault(cur, [])
        if cur is not None:
            groups[cur].append(line)
    out = {"model_behaviours": nm, "random_runs": nr, "instances": len(groups), "accepted": True, "rejected": []}
    ep = None
    for k, (key, lines) in enumerate(sorted(groups.items())):
        gp = os.path.join(ctx.work, f"opevents{k}.ndjson")
        with open(gp, "w") as f:
            f.writelines(lines)
        if ep is None or len(lines) > out.get("_largest", 0):
            ep, out["_largest"] = gp, len(lines)
        try:
            okm, infom, _ = ctx.validate("TraceFetchSchedOp", "TraceFetchSchedOp.cfg", gp, timeout=3000, heap="8g",
                                         label=f"strict model conformance, capacity {key[0]} persistent {list(key[1])} (informational)")
        except vlib.ToolError as e:
            out["accepted"] = None
            out["error"] = str(e)[:300]
            continue
        if not okm:
            out["accepted"] = False
            out["rejected"].append({"capacity": key[0], "persistent": list(key[1]), "at": infom.get("rejected")})
    out.pop("_largest", None)
    if out["accepted"] is not True:
        vlib.log(f"MODEL-DRIFT (not a violation): the real Service left FetchSched.tla's actions: {out['rejected'][:3]} {out.get('error', '')}")
        return out
    # binding self-test: a log with one queue length changed / one emitted fetch dropped must be rejected
    lines = open(ep).read().splitlines()
    for kind in ("queue-length", "drop-fetch"):
        done, outl = False, []
        for ln in lines:
            e = json.loads(ln)
            if not done and e["ev"] == "step":
                if kind == "queue-length" and e["sess"]:
                    e["sess"][0][3] += 1
                    done = True
                elif kind == "drop-fetch" and e["fetches"]:
                    e["fetches"], done = e["fetches"][:-1], True
            outl.append(json.dumps(e, separators=(",", ":")))
        if not done:
            raise vlib.ToolError(f"binding self-test: nothing to corrupt ({kind})")
        cp = os.path.join(ctx.work, f"selftest-{kind}.ndjson")
        with open(cp, "w") as f:
            f.write("\n".join(outl) + "\n")
        okc, _, _ = ctx.validate("TraceFetchSchedOp", "TraceFetchSchedOp.cfg", cp, timeout=3000, heap="8g", label=f"binding self-test: {kind}")
        if okc:
            raise vlib.ToolError(f"binding self-test failed: corrupted log ({kind}) was accepted by TraceFetchSchedOp")
    out["selftest_corrupted_logs_rejected"] = 2
    return out


def replay(ctx, path):
    d = json.load(open(path))["replay"]
    if d.get("engine") == "c13_wire":
        import importlib.util
        spec = importlib.util.spec_from_file_location("wire_common_for_c16", os.path.join(os.path.dirname(__file__), "wire_common.py"))
        W = importlib.util.module_from_spec(spec)
        spec.loader.exec_module(W)
        return W.replay(ctx, path)
    ctx.build(ENGINE)
    sp = os.path.join(ctx.work, "one.ndjson")
    with open(sp, "w") as f:
        f.write(json.dumps(d["script"]) + "\n")
    ep = os.path.join(ctx.work, "one.events.ndjson")
    ctx.engine(ENGINE, ["--scripts", sp, "--out", ep])
    ok, info, tres = ctx.validate("TraceFetchSched", "TraceFetchSched.cfg", ep)
    for line in open(ep):
        print(line.rstrip()[:400])
    for c in tres.cases:
        print("VIOLATED", json.dumps(c))
    ctx.cleanup()
    return 0
