"""C04 Identity revisions need a majority of valid delegate signatures (spec/Identity.tla)."""
import hashlib
import json
import os
import random
import subprocess
import vlib

ENGINE = "c04_identity"

# Worlds: the document table must be the one the MC module / trace module uses.
WORLD4 = {"keys": ["a", "b", "c", "d", "s"], "init": 1, "authors": ["a", "b", "c", "s"],
          "docs": [["a", "b", "c", "d"], ["a", "b", "c", "d"], ["a", "b"], ["a", "b", "c", "d", "s"]]}
WORLD2 = {"keys": ["a", "b", "c", "d", "s"], "init": 1, "authors": ["a", "b", "s"],
          "docs": [["a", "b"], ["a", "b"], ["a"], ["a", "b", "s"]]}
WORLDT = {"keys": ["a", "b", "c", "d", "s"], "init": 1, "authors": ["a", "b", "c", "d", "s"],
          "docs": [["a", "b", "c", "d"], ["a", "b", "c", "d"], ["a", "b"], ["a", "b", "c", "d", "s"], ["b", "c", "s"]]}

# (cfg, world, label, adoption reachable within the bound)
QUICK = [("MCIdentity_q.cfg", WORLD4, "4 delegates + stranger, <=3 changes, 1 action each, one fork/join", True),
         ("MCIdentity_q2.cfg", WORLD4, "4 delegates + stranger, <=2 changes, <=2 actions each, one fork", False),
         ("MCIdentity_q3.cfg", WORLD2, "2 delegates + stranger, <=3 changes, 1 action each, one fork/join (adoption, then a smaller delegate set)", True)]
# thorough: t0 contains the quick instance q; the two big instances are model-checked completely and
# a sample of their states (one in EmitEvery) is replayed
THOROUGH = QUICK[1:] + [
    ("MCIdentity_t0.cfg", WORLD4, "4 delegates + stranger, <=3 changes, 1 action each, one fork/join, two proposable documents", True),
    ("MCIdentity_t.cfg", WORLD2, "2 delegates + stranger, <=4 changes, 1 action each, one fork/join, three proposable documents (delegate-set changes); 1 state in 100 replayed", True),
    ("MCIdentity_t2.cfg", WORLD4, "4 delegates + stranger, <=4 changes, 1 action each, one fork/join; 1 state in 40 replayed", True),
]
SAMPLED = {"MCIdentity_t.cfg", "MCIdentity_t2.cfg"}
PROPS = "TypeOK ActiveIsChildOfCurrent AcceptedChain CurrentAccepted HeadsBacked VerdictsValid; C04_Majority C04_Strangers C04_AcceptedStable RejectedLeavesNoTrace"

RULE = ("cases = reachable states of MCIdentity with a complete history (one witness history per object state and per "
        "combination of code paths taken by its changes), each materialised as real change commits of a real identity COB "
        "and evaluated with the real cob::get::<Identity>; compared: current, per-revision state/parent/author/document/"
        "accept verdicts, heads, surviving changes, plus the three clauses of C04 checked directly on the real object; "
        "non-trivial = history with a refused change followed by a concurrent branch; plus random longer histories recorded "
        "from the implementation and validated step by step by TLC (TraceIdentity)")


def shape(log):
    out = []
    for e in log:
        acts = []
        for a in e["op"]["acts"]:
            if a["t"] == "revision":
                acts.append(f"revision(p{a['rev']},d{a['doc']},{'ok' if a['sig'] else 'bad'})")
            elif a["t"] == "accept":
                acts.append(f"accept({a['rev']},{'ok' if a['sig'] else 'bad'})")
            else:
                acts.append(f"{a['t']}({a['rev']})")
        out.append(f"{e['step']}:{e['op']['author']}:{'+'.join(acts)}")
    return " ".join(out)


def run_engines(ctx, jobs, timeout):
    """jobs: list of argv lists (without the binary). Run them in parallel, return list of (rc, stdout, stderr)."""
    # glibc malloc otherwise returns memory with brk after every evaluation (80% of the engine's time here)
    env = dict(os.environ, VERIF_SEED=str(ctx.seed), RUST_BACKTRACE="0",
               MALLOC_TOP_PAD_="268435456", MALLOC_TRIM_THRESHOLD_="1073741824")
    procs = [subprocess.Popen(["timeout", "-k", "10", str(timeout), ctx.bin(ENGINE)] + [str(a) for a in j],
                              cwd=ctx.work, env=env, stdout=subprocess.PIPE, stderr=subprocess.PIPE, text=True)
             for j in jobs]
    res = []
    for p in procs:
        o, e = p.communicate()
        if p.returncode in (124, 137):
            raise vlib.ToolError("engine c04_identity timed out")
        if p.returncode != 0:
            raise vlib.ToolError(f"engine c04_identity failed rc={p.returncode}\n{e[-3000:]}")
        res.append((p.returncode, o, e))
    return res


def replay_cases(ctx, cases, world, tag, nproc=6, timeout=3000):
    """Replay cases in parallel engine processes. Cases are grouped by their first change so that a
    linear history and its one-change extensions are seen by the same process."""
    chunks = [[] for _ in range(nproc)]
    for c in cases:
        k = json.dumps(c["log"][0]["op"], sort_keys=True) if c["log"] else ""
        chunks[int(hashlib.md5(k.encode()).hexdigest(), 16) % nproc].append(c)
    jobs, outs = [], []
    for i, ch in enumerate(chunks):
        if not ch:
            continue
        p = ctx.write_cases(ch, f"cases-{tag}-{i}.ndjson")
        o = os.path.join(ctx.work, f"verdicts-{tag}-{i}.ndjson")
        outs.append(o)
        jobs.append(["--mode", "replay", "--cases", p, "--out", o, "--world", json.dumps(world)])
    import time
    t = time.time()
    run_engines(ctx, jobs, timeout)
    vlib.log(f"engine {ENGINE} replay {tag}: {len(cases)} histories in {len(jobs)} processes {time.time()-t:.1f}s")
    recs, stats = [], {}
    for o in outs:
        for r in ctx.read_ndjson(o):
            if r.get("summary"):
                for k, v in r["stats"].items():
                    stats[k] = stats.get(k, 0) + v
            else:
                recs.append(r)
    return recs, stats


def report(ctx, recs, world):
    for r in recs:
        if r.get("ok"):
            continue
        if r["kind"] == "crash":
            ctx.violation(f"crash [{r['shape']}] {r['detail'][:80]}", f"evaluating the history with the real code failed: {r['detail']}",
                          {"world": world, "case": r["case"]})
        elif r["kind"] == "statement":
            ctx.violation(f"statement [{r['shape']}]", "; ".join(r["statement"]) + (" | model/real: " + "; ".join(r["diff"]) if r["diff"] else ""),
                          {"world": world, "case": r["case"], "actual": r["actual"]})
        else:
            ctx.violation(f"projection [{r['shape']}]", "real identity differs from the model: " + "; ".join(r["diff"]),
                          {"world": world, "case": r["case"], "actual": r["actual"]})


def run(ctx):
    thorough = ctx.tier == "thorough"
    ctx.build(ENGINE)
    rnd = random.Random(ctx.seed)
    all_exhaustive = True
    total_cases = 0
    for cfg, world, label, adoptable in (THOROUGH if thorough else QUICK):
        res = ctx.tlc("MCIdentity", cfg, workers=8 if thorough else 6, timeout=3000 if thorough else 600, coverage=False,
                      heap="8g" if thorough else "4g", label=f"exhaustive: {label}; {PROPS}")
        ctx.tlc_ok(res, f"MCIdentity/{cfg}")
        if res.violated:
            ctx.violation(f"model:{cfg}:{res.violated}", "the identity state machine (atomic operations) violates the property in the bounded model",
                          {"tlc_counterexample": res.error_trace[:120]})
            return ctx.finish(rule=RULE)
        cases = res.cases
        if not cases:
            raise vlib.ToolError("TLC emitted no cases")
        # vacuity guards: adoption, rejection, pruning, concurrency must all occur
        adopted = sum(1 for c in cases if c["current"] != 0)
        refused = sum(1 for c in cases if any(e["out"] == "rejected" for e in c["log"]))
        forked = sum(1 for c in cases if any(e["step"] == "forky" for e in c["log"]))
        badsig = sum(1 for c in cases if any(e["err"] == "InvalidSignature" for e in c["log"]))
        dup = sum(1 for c in cases if any(e["err"] == "DuplicateVerdict" for e in c["log"]))
        if min(adopted if adoptable else 1, refused, forked, badsig, dup) == 0:
            raise vlib.ToolError(f"vacuous case set for {cfg}: adopted={adopted} refused={refused} forked={forked} badsig={badsig} dup={dup}")
        # quick tier: every case with a refused change inside a fork (where a leak can matter), a seeded
        # sample of the rest
        if thorough:
            chosen = cases
            if cfg in SAMPLED:
                all_exhaustive = False
        else:
            hot = [c for c in cases if any(e["out"] == "rejected" for e in c["log"]) and any(e["step"] == "forky" for e in c["log"])
                   and c["log"][-1]["out"] == "applied"]
            rest = [c for c in cases if c not in hot] if len(cases) < 2000 else None
            if rest is None:
                hot_ids = set(id(c) for c in hot)
                rest = [c for c in cases if id(c) not in hot_ids]
            if len(hot) > 1500:
                hot = rnd.sample(hot, 1500)
            chosen = hot + rnd.sample(rest, min(len(rest), 1500))
            # linear predecessors of sampled linear histories are cheap and enable the step clauses
            all_exhaustive = False
        recs, stats = replay_cases(ctx, chosen, world, cfg.replace(".cfg", ""), nproc=8 if thorough else 6)
        report(ctx, recs, world)
        total_cases += len(chosen)
        ctx.cov["evaluations"] += stats.get("evaluations", 0)
        ctx.cov["traces_validated_against_impl"] += len(chosen)
        ctx.cov["distinct_nontrivial"] += stats.get("nontrivial", 0)
        ctx.cov.setdefault("drift_replay", 0)
        ctx.cov["drift_replay"] += stats.get("drift", 0)
        ctx.cov["samples"] += [{"history": shape(c["log"]), "current": c["current"], "heads": c["heads"]}
                               for c in chosen[len(chosen) // 2: len(chosen) // 2 + 2]]
    ctx.cov["exhaustive"] = all_exhaustive
    # sanity: the original in-place semantics must be rejected by TLC (property not vacuous; documents the fixed finding)
    dev = ctx.tlc("MCIdentity", "MCIdentity_dev.cfg", workers=4, timeout=900, coverage=False, count=False,
                  label="sanity: in-place mutation (original code) must violate C04_Majority")
    if dev.violated != "C04_Majority":
        raise vlib.ToolError(f"sanity run: the in-place model was not rejected by TLC (violated={dev.violated})")
    # implementation -> spec
    rec = os.path.join(ctx.work, "rec.ndjson")
    n = 1500 if thorough else 100
    out = run_engines(ctx, [["--mode", "record", "--n", n, "--maxops", 12 if thorough else 9, "--out", rec, "--world", json.dumps(WORLDT)]],
                      3000 if thorough else 600)
    recorded = ctx.read_ndjson(rec)
    bad = False
    hist = []
    for r in recorded:
        if r["ev"] == "reset":
            hist = []
            continue
        hist.append({"op": r["op"], "step": r["step"], "par": r["par"]})
        obs = r["obs"]
        if obs.get("crash"):
            bad = True
            ctx.violation(f"recorded crash [{shape(hist)}] {obs['crash'][:80]}", f"evaluating a recorded history failed: {obs['crash']}",
                          {"world": WORLDT, "history": list(hist)})
        elif obs.get("statement"):
            bad = True
            ctx.violation(f"recorded statement [{shape(hist)}]", "; ".join(obs["statement"]), {"world": WORLDT, "history": list(hist), "actual": obs})
    if not bad:
        ok, info, tres = ctx.validate("TraceIdentity", "TraceIdentity.cfg", rec, timeout=3000 if thorough else 600, heap="6g")
        if not ok:
            at = tres.distinct  # 1-based number of the first record the model cannot follow
            # reconstruct the history the offending record belongs to
            h, k = [], 0
            for r in recorded[:at]:
                k += 1
                if r["ev"] == "reset":
                    h = []
                else:
                    h.append({"op": r["op"], "step": r["step"], "par": r["par"]})
            badrec = recorded[at - 1] if 0 < at <= len(recorded) else None
            what = info.get("violated") or info.get("rejected")
            ctx.violation(f"recorded history [{shape(h)}] {what}",
                          "the recorded evaluation of the real identity COB is not a behaviour of Identity.tla (or violates one of its properties) at the last change of this history",
                          {"world": WORLDT, "history": h, "record": badrec, "tlc": info})
        else:
            nh = sum(1 for r in recorded if r["ev"] == "reset")
            ctx.cov["traces_validated_against_impl"] += nh
            ctx.cov["evaluations"] += sum(1 for r in recorded if r["ev"] == "op" and r["obs"].get("has"))
            ctx.cov["recorded_histories"] = nh
            ctx.cov["recorded_changes"] = sum(1 for r in recorded if r["ev"] == "op")
            longest, cur = [], []
            for r in recorded:
                if r["ev"] == "reset":
                    cur = []
                else:
                    cur.append(r)
                    if len(cur) > len(longest):
                        longest = list(cur)
            ctx.cov["samples"] += [{"recorded": shape(longest)}]
    ctx.assumptions += [
        "signature validity is an input bit per action; the engine realises it with real Ed25519 signatures (valid; over unrelated bytes; by the author over another blob)",
        "histories are chains with non-nested fork/join diamonds of two branches; the branch evaluated first is arranged through commit timestamps (fork at a change) or ids (fork at the root), following ChangeGraph::evaluate",
        "at most one revision action per change (Transaction::push enforces it; two would share one id)",
        "document blobs exist and parse (Doc::from_blob failures are not modelled)",
    ]
    return ctx.finish(rule=RULE)


def replay(ctx, path):
    ctx.build(ENGINE)
    d = json.load(open(path))["replay"]
    world = d.get("world", WORLD4)
    if "case" in d:
        case = d["case"]
    elif "history" in d:
        # recorded history: no model prediction; print the real evaluation of every complete prefix
        case = {"log": [dict(e, out="?", err="") for e in d["history"]], "current": -1, "revs": [], "heads": {}}
    else:
        print(json.dumps(d)[:2000])
        ctx.cleanup()
        return 0
    print("history:", shape(case["log"]))
    p = ctx.write_cases([case], "one.ndjson")
    o = os.path.join(ctx.work, "one.out")
    run_engines(ctx, [["--mode", "replay", "--cases", p, "--out", o, "--world", json.dumps(world)]], 600)
    for r in ctx.read_ndjson(o):
        if r.get("summary"):
            print("summary:", json.dumps(r["stats"]))
            continue
        print("kind:", r["kind"])
        for k in ("statement", "diff", "detail"):
            if r.get(k):
                print(f"  {k}: {r[k]}")
        if "expected" in r:
            print("  model :", json.dumps(r["expected"]))
        if "actual" in r:
            print("  real  :", json.dumps(r["actual"]))
    ctx.cleanup()
    return 0
