"""C17 Rate limiting admits at most capacity plus refill (spec/Limiter.tla; engine c17_limiter)."""
import json
import os
import vlib

ENGINE = "c17_limiter"

RULE = ("design level: every timeline of <= MaxCalls limit() calls with clock values from a grid (any order, also "
        "backwards) for every parameter set, with the ghost admission history in the state (modes direct and service); "
        "cases = every distinct bucket state of the 'emit' instance with the shortest call sequence reaching it and every "
        "outgoing call (= every transition), replayed on the real RateLimiter comparing outcome and serialised bucket "
        "after every call; a state is non-trivial when reached by >= 2 calls (counted by the engine); plus random "
        "timelines (non-dyadic rates, bursts, idle periods, backward clocks, 5 hosts, also through the real "
        "Service::tick/accepted) recorded and validated by TraceLimiter with WindowBound evaluated after every call")


def sig_of(r):
    return f"limiter params={json.dumps(r['case']['params'], separators=(',', ':'))} calls={json.dumps(r['case']['calls'], separators=(',', ':'))} {r['what']}"


def run(ctx):
    thorough = ctx.tier == "thorough"
    ctx.build(ENGINE)
    t = "t" if thorough else "q"
    # 0. sanity: a refill proportional to milliseconds must break the window bound
    dev = ctx.tlc("MCLimiter", "MCLimiter_dev.cfg", workers=2, timeout=300, coverage=False, count=False,
                  label="sanity: refill by elapsed milliseconds must violate WindowBound")
    if dev.violated != "WindowBound":
        raise vlib.ToolError("sanity run: millisecond-refill variant was not rejected by TLC")
    # 1. design level
    for cfg, lab in ((f"MCLimiter_{t}.cfg", "direct: arbitrary clock values passed to limit(); WindowBound AdmissionsMonotone NeverLimited TokensBounded"),
                     (f"MCLimiter_{t}s.cfg", "service: Tick (backward ticks ignored) + Accepted; same invariants + the limiter never panics")):
        res = ctx.tlc("MCLimiter", cfg, workers=8 if thorough else 6, timeout=3000 if thorough else 600, coverage=False, label=lab)
        ctx.tlc_ok(res, cfg)
        if res.violated:
            ctx.violation(f"model:{cfg}:{res.violated}", "the transcribed token bucket violates the statement in the bounded model",
                          {"tlc_counterexample": res.error_trace[:100]})
            return ctx.finish(rule=RULE)
        if res.distinct < 1000:
            raise vlib.ToolError(f"{cfg}: suspiciously small state space ({res.distinct})")
    # 2. every transition of the bucket state graph, replayed
    res = ctx.tlc("MCLimiter", f"MCLimiter_{t}e.cfg", workers=8 if thorough else 6, timeout=3000 if thorough else 600, coverage=False,
                  label="emit: bucket state graph, one case per state with all outgoing calls")
    ctx.tlc_ok(res, "emit")
    if res.violated:
        ctx.violation(f"model:emit:{res.violated}", "invariant violated in the emit instance", {"tlc_counterexample": res.error_trace[:100]})
        return ctx.finish(rule=RULE)
    if len(res.cases) != res.distinct or not res.cases:
        raise vlib.ToolError(f"TLC emitted {len(res.cases)} cases for {res.distinct} states")
    outs = [o for c in res.cases for o in c["outs"]]
    kinds = {o[4] for o in outs}
    if kinds != {"admit", "limit", "panic"}:
        raise vlib.ToolError(f"vacuous case set: outcomes {kinds}")
    cases = ctx.write_cases(res.cases)
    out = os.path.join(ctx.work, "verdicts.ndjson")
    ctx.engine(ENGINE, ["--mode", "replay", "--cases", cases, "--out", out])
    recs = ctx.read_ndjson(out)
    summary = [r for r in recs if r.get("summary")][0]
    for r in recs:
        if r.get("summary") or r.get("drift"):
            continue
        ctx.violation(sig_of(r), f"{r['what']}; model outcomes {r['expected_rets']}, real {r['actual_rets']}", r)
    ctx.cov["evaluations"] += summary["calls"]
    ctx.cov["traces_validated_against_impl"] += len(res.cases) + len(outs)
    ctx.cov["distinct_nontrivial"] += summary["states_nontrivial"]
    ctx.cov["replay_outcomes"] = {k: summary[k] for k in ("admits", "limits", "panics")}
    ctx.cov["drift_replay"] = summary["drift"]
    ctx.cov["drift_samples"] = [r for r in recs if r.get("drift")][:3]
    if summary["drift"]:
        vlib.log("MODEL-DRIFT (not a violation): the real limiter differs from the milli-token model while satisfying the statement")
    c = [x for x in res.cases if len(x["path"]) >= 3][:1] or res.cases[:1]
    ctx.cov["samples"] += [{"params": x["params"], "path": x["path"], "buckets": x["proj"], "outs": x["outs"][:4]} for x in c]
    ctx.cov["exhaustive"] = True
    # 3. implementation -> spec: random timelines incl. non-dyadic rates and the service path
    rec = os.path.join(ctx.work, "rec.ndjson")
    n, steps, svc = (3000, 50, 300) if thorough else (150, 40, 20)
    ctx.engine(ENGINE, ["--mode", "record", "--n", n, "--steps", steps, "--service", svc, "--out", rec])
    recorded = ctx.read_ndjson(rec)
    ok, info, tres = ctx.validate("TraceLimiter", "TraceLimiter.cfg", rec, timeout=3000 if thorough else 600)
    if not ok:
        at = tres.distinct
        bad = recorded[at - 1] if 0 < at <= len(recorded) else None
        start = max(i for i in range(at) if recorded[i]["op"] == "reset") if bad else 0
        hist = recorded[start:at]
        ctx.violation("recorded timeline " + json.dumps([[r.get("h"), r.get("n"), r.get("cap"), r.get("rate"), r.get("now"), r.get("ret")] for r in hist if r["op"] == "limit"], separators=(",", ":"))[:500],
                      "the admissions of the real limiter break the window bound / a bypassed or non-routable request was limited "
                      f"({info.get('violated') or info.get('rejected')})", {"history": hist, "tlc": info})
    else:
        ctx.cov["traces_validated_against_impl"] += sum(1 for r in recorded if r["op"] == "reset")
        ctx.cov["evaluations"] += len(recorded)
        ctx.cov["recorded_calls"] = len(recorded)
        ctx.cov["recorded_admissions"] = sum(1 for r in recorded if r.get("ret") == "admit")
        ctx.cov["recorded_refusals"] = sum(1 for r in recorded if r.get("ret") == "limit")
        ctx.cov["recorded_backward_clock_panics"] = sum(1 for r in recorded if r.get("ret") == "panic")
        ctx.cov["samples"] += [r for r in recorded if r["op"] == "limit"][:3]
        if not ctx.cov["recorded_refusals"] or not ctx.cov["recorded_backward_clock_panics"]:
            raise vlib.ToolError("vacuous recording: no refusal / no backward clock")
        # informational: exact agreement with the milli-token model on dyadic runs
        ok2, info2, _ = ctx.validate("TraceLimiter", "TraceLimiter_exact.cfg", rec, timeout=3000 if thorough else 600, label="drift (informational)")
        ctx.cov["drift_recorded_trace_rejected"] = (not ok2)
        if not ok2:
            vlib.log("MODEL-DRIFT (not a violation): recorded dyadic runs differ from the exact milli-token model")
    ctx.assumptions += ["windows are taken between admissions on the clock the limiter was given (DESIGN.md section 5)",
                        "a backward clock passed directly to the limiter panics in LocalTime::duration_since, admits nothing and is recorded as a non-admission",
                        "exact comparison only for capacities/rates that are multiples of 1/8 (f64 arithmetic exact); other rates are judged by the window bound alone",
                        "rates on a per-mille grid"]
    return ctx.finish(rule=RULE)


def replay(ctx, path):
    ctx.build(ENGINE)
    d = json.load(open(path))["replay"]
    if "history" in d:
        p = ctx.write_cases(d["history"], "one.ndjson")
        ok, info, _ = ctx.validate("TraceLimiter", "TraceLimiter.cfg", p)
        print("recorded timeline is", "accepted" if ok else f"rejected: {info.get('rejected') or info.get('violated')}")
        ctx.cleanup()
        return 0
    calls = d["case"]["calls"]
    print("params:", d["case"]["params"], "calls [host, nid, param, now]:", calls)
    print("model outcomes:", d["expected_rets"], "buckets:", d.get("expected_buckets"))
    steps = [c + [r] for c, r in zip(calls, d["expected_rets"])]
    case = {"params": d["case"]["params"], "nonroutable": [2], "bypass": [2], "path": steps, "proj": d.get("expected_buckets", []), "outs": []}
    cp = ctx.write_cases([case], "c.ndjson")
    out = os.path.join(ctx.work, "o.ndjson")
    ctx.engine(ENGINE, ["--mode", "replay", "--cases", cp, "--out", out])
    for r in ctx.read_ndjson(out):
        print("real code:", json.dumps(r))
    ctx.cleanup()
    return 0
