"""C15 Wire messages round-trip and have a unique encoding (spec/WireMsg.tla)."""
import json
import os
import re
import vlib

ENGINE = "c15_messages"

RULE = ("(1) size algebra: TLC explores the message assembly machine of WireMsg.tla (BoundedVec::push guards, string and "
        "padding limits) with the limits the code reports and checks Size(m) <= 65535 in every reachable state; every "
        "boundary message (vector lengths in {0,1,limit-1,limit}, <= 2 address kinds, alias/agent at their bounds, every "
        "filter size, padding in {0,1,max-1,max}) is built with the real types and its real encoded length must equal "
        "Size(m), fit the frame, decode to an equal message, re-encode identically and pass through a gossip frame. "
        "(2) unique encoding: TLC enumerates candidate encodings (one variant per field from the variant table, at most two "
        "fields off canonical, cuts after every field, trailing bytes) and checks that the field-by-field decoder accepts "
        "only canonical candidates (exception: node announcement without user agent); every candidate is materialised as "
        "bytes (announcements signed over the bytes as sent), decoded strictly and as a frame payload, and outcome, "
        "re-encoding and signature verification are compared with the model. Non-trivial = boundary message with a "
        "non-empty vector or non-minimal string/padding, or candidate with at least one field off the canonical variant "
        "(distinct cases counted). (3) random: mutated/random byte strings that decode must re-encode identically; plus "
        "ORDINARY round-trip testing decode(encode(m)) = m on random messages (not model-based; labelled as such).")

CFG_KEYS = ["InventoryLimit", "RefRemoteLimit", "AddressLimit", "AliasMax", "AgentMax", "HostMax",
            "MaxPingZeroes", "MaxPongZeroes", "SizeMax"]


def write_cfg(ctx, name, limits, tail, max_kinds=2, nonzero=False, partial=False):
    """The cfg is generated so that TLC checks the limits the code actually has."""
    lines = ["CONSTANTS"]
    for k in CFG_KEYS:
        lines.append(f"  {k} = {int(limits[k])}")
    lines.append("  FilterSizes = {" + ", ".join(str(int(x)) for x in limits["FilterSizes"]) + "}")
    lines.append(f"  MaxAddrKinds = {max_kinds}")
    lines.append(f"  AcceptNonZeroPadding = {'TRUE' if nonzero else 'FALSE'}")
    lines.append(f"  AcceptPartialAgent = {'TRUE' if partial else 'FALSE'}")
    lines.append(tail)
    path = os.path.join(ctx.work, name)
    with open(path, "w") as f:
        f.write("\n".join(lines) + "\n")
    return path


SIZE_TAIL = "INIT SizeInit\nNEXT SizeNext\nINVARIANTS WorstCaseFits SizeOK EmitSize"
FACTS_TAIL = "INIT FactsInit\nNEXT SizeNext\nINVARIANTS InventoryLimitIsMaximal PingLimitIsExact PongLimitIsExact"
ENC_TAIL = "INIT EncInit\nNEXT EncNext\nINVARIANTS DecoderAgrees UniqueEncoding EmitEnc"
DEV_TAIL = "INIT EncInit\nNEXT EncNext\nINVARIANTS UniqueEncoding"


def nontrivial(c):
    if c["part"] == "size":
        m = c["msg"]
        return bool(m["addrs"] or m["inv"] or m["refs"] or m["zeroes"] or m["alias"] > 1 or m["agent"] > 3 or m["filter"] != 1024)
    return any(v != "ok" for v in c["v"]) or c["trailing"] or c["cut"] < len(c["fields"])


def run(ctx):
    thorough = ctx.tier == "thorough"
    ctx.build(ENGINE)
    lim_path = os.path.join(ctx.work, "limits.json")
    ctx.engine(ENGINE, ["--mode", "limits", "--out", lim_path])
    limits = ctx.read_ndjson(lim_path)[0]
    static = {"InventoryLimit": 2973, "RefRemoteLimit": 1024, "AddressLimit": 16, "AliasMax": 32, "AgentMax": 64,
              "MaxPingZeroes": 65529, "MaxPongZeroes": 65531, "SizeMax": 65535}
    drift = {k: (v, limits[k]) for k, v in static.items() if limits[k] != v}
    if drift:
        vlib.log(f"limits in the code differ from spec/MCWireMsg_*.cfg (model value, code value): {drift}; TLC runs with the code's values")
    ctx.cov["limits_from_code"] = limits

    # 1. size algebra with the code's limits
    cfg = write_cfg(ctx, "size.cfg", limits, SIZE_TAIL, max_kinds=5 if thorough else 2)
    res = ctx.tlc("MCWireMsg", cfg, workers=2, timeout=3000 if thorough else 600, coverage=True,
                  label="exhaustive: message assembly machine over the code's limits; invariant SizeOK")
    m = re.search(r"The invariant of (\w+) is equal to FALSE", res.out)   # constant-level invariant: TLC words it differently
    if m and not res.violated:
        res.violated = m.group(1)
        res.error_trace = [l for l in res.out.splitlines() if "invariant" in l.lower()][:5] + [f"limits: {json.dumps(limits)}"]
    ctx.tlc_ok(res, "MCWireMsg/size")
    if res.violated and res.violated not in ("SizeOK", "WorstCaseFits"):
        raise vlib.ToolError(f"size instance: unexpected violation {res.violated}\n{res.out[-2000:]}")
    if res.violated:
        ctx.violation(f"model:{res.violated}", "with the limits the code has, a message that can be assembled does not fit the 64 KiB frame: "
                      + " ".join(l.strip() for l in res.error_trace[-14:])[:900], {"limits": limits, "tlc_counterexample": res.error_trace[-60:]})
        return ctx.finish(rule=RULE)
    ctx.require_coverage(res, ["SPushInventory", "SPushRef", "SPushAddress", "SSetScalar"])
    size_cases = res.cases
    if len(size_cases) < 50 or not any(c["msg"]["inv"] == limits["InventoryLimit"] for c in size_cases):
        raise vlib.ToolError("vacuous size case set")
    # design facts (informational: tightness of the limits)
    if thorough:
        facts = ctx.tlc("MCWireMsg", write_cfg(ctx, "facts.cfg", limits, FACTS_TAIL), workers=1, timeout=600, coverage=False, count=False,
                        label="design facts: limits are as large as the frame allows (informational)")
        ctx.cov["limit_tightness"] = "holds" if not facts.violated and facts.rc == 0 else f"not tight: {facts.violated}"

    # 2. candidate encodings
    enc = ctx.tlc("MCWireMsg", write_cfg(ctx, "enc.cfg", limits, ENC_TAIL), workers=4, timeout=900, coverage=True,
                  label="exhaustive: candidate encodings x field-by-field decoder; invariants DecoderAgrees UniqueEncoding")
    ctx.tlc_ok(enc, "MCWireMsg/enc")
    if enc.violated:
        ctx.violation(f"model:{enc.violated}", "the variant table admits a non-canonical accepted encoding", {"tlc_counterexample": enc.error_trace[:80]})
        return ctx.finish(rule=RULE)
    ctx.require_coverage(enc, ["EReadField", "ERejectField", "EHitEnd", "EFinish"])
    enc_cases = enc.cases
    if len(enc_cases) < 300 or not any(c["strict"] == "ok" and not c["reencodes"] for c in enc_cases) \
            or len({c["strict"] for c in enc_cases}) < 10:
        raise vlib.ToolError("vacuous candidate set")
    # the code as found (fixed since) must be rejected by TLC
    devs = [("dev-nonzero.cfg", {"nonzero": True}, "non-zero padding accepted"), ("dev-partial.cfg", {"partial": True}, "partial user agent accepted")] \
        if thorough else [("dev-both.cfg", {"nonzero": True, "partial": True}, "non-zero padding / partial user agent accepted")]
    for nm, kw, what in devs:
        d = ctx.tlc("MCWireMsg", write_cfg(ctx, nm, limits, DEV_TAIL, **kw), workers=2, timeout=600, coverage=False, count=False,
                    label=f"sanity: deviation '{what}' must violate UniqueEncoding")
        if d.violated != "UniqueEncoding":
            raise vlib.ToolError(f"sanity run: deviation '{what}' was not rejected by TLC")

    # 3. spec -> implementation
    cases = size_cases + enc_cases
    path = ctx.write_cases(cases)
    out = os.path.join(ctx.work, "verdicts.ndjson")
    ctx.engine(ENGINE, ["--mode", "replay", "--cases", path, "--out", out, "--variants", 6 if thorough else 2])
    recs = ctx.read_ndjson(out)
    summ = [r for r in recs if r.get("summary")][0]
    for r in recs:
        if not r.get("summary"):
            ctx.violation(r["sig"], r["desc"], r)
    if not ctx.violations and (summ["accepted"] == 0 or summ["rejected"] == 0 or summ["signatures_verified"] == 0):
        raise vlib.ToolError("vacuous replay")
    ctx.cov["evaluations"] += summ["size_cases"] + summ["enc_evaluations"]
    ctx.cov["distinct_nontrivial"] += sum(1 for c in cases if nontrivial(c))
    ctx.cov["traces_validated_against_impl"] += len(cases)
    ctx.cov["samples"] += [size_cases[len(size_cases) // 2], size_cases[-1], enc_cases[len(enc_cases) // 3], enc_cases[-1]]
    ctx.cov["replay"] = summ
    ctx.cov["exhaustive"] = True

    # 4. random byte strings (unique encoding, model-free oracle) + ordinary round trip
    rout = os.path.join(ctx.work, "random.ndjson")
    ctx.engine(ENGINE, ["--mode", "random", "--n", 500000 if thorough else 12000, "--out", rout], timeout=3000)
    rrecs = ctx.read_ndjson(rout)
    rs = [r for r in rrecs if r.get("summary")][0]
    for r in rrecs:
        if not r.get("summary"):
            ctx.violation(r["sig"], r["desc"], r)
    if not ctx.violations and (rs["mutated_decoded"] < 100 or len(rs["decoded_by_type"]) < 7):
        raise vlib.ToolError("vacuous random run: too few mutated byte strings decode")
    ctx.cov["evaluations"] += rs["mutated"]
    ctx.cov["random_bytes"] = {k: rs[k] for k in ("mutated", "mutated_decoded", "decoded_by_type", "agent_absent_exception")}
    ctx.cov["ordinary_roundtrip_testing"] = {"note": "decode(encode(m)) = m on qcheck-generated messages: plain property-based round-trip testing, "
                                                     "not model-based; not counted in evaluations", "messages": rs["roundtrips"]}
    ctx.assumptions += [
        "address kinds explored by the size machine: ipv4, ipv6, dns with 1- and 255-byte names, onion; at most "
        + ("5" if thorough else "2") + " distinct choices per message (size is additive in the addresses)",
        "host names are bounded by the one-byte length prefix (an Address with a longer DNS name cannot be encoded: encode asserts)",
        "candidate encodings deviate from canonical in at most two fields; vector variants are {empty, 2 elements, limit, limit+1, duplicates, bad element}",
        "Ed25519 signatures by the crate's MockSigner; verify() is checked on every accepted canonical announcement signed over the bytes as sent",
    ]
    return ctx.finish(rule=RULE)


def replay(ctx, path):
    ctx.build(ENGINE)
    d = json.load(open(path))["replay"]
    if "case" not in d:
        print("random finding: bytes =", d.get("bytes"))
        print("re-run `./check C15` with the same VERIF_SEED to regenerate it")
        ctx.cleanup()
        return 0
    p = ctx.write_cases([d["case"]], "one.ndjson")
    out = os.path.join(ctx.work, "one-verdicts.ndjson")
    ctx.engine(ENGINE, ["--mode", "replay", "--cases", p, "--out", out, "--variants", 4])
    recs = ctx.read_ndjson(out)
    for r in recs:
        print(json.dumps(r))
    bad = [r for r in recs if not r.get("summary")]
    print("reproduced" if bad else "not reproduced")
    ctx.cleanup()
    return 1 if bad else 0
