"""C25 Sync announcer / fetcher report success exactly when their target is met (spec/Sync.tla;
engine c25_sync)."""
import json
import os
import vlib

ENGINE = "c25_sync"

RULE = ("cases = every distinct state of the bounded announcer and fetcher models (all configurations over local + 2 "
        "nodes: preferred / synced / unsynced sets, replication factors, extra candidates incl. duplicates and the "
        "local node), each with the call sequence reaching it and EVERY outgoing call (= every transition of the "
        "state graph), replayed call by call on the real Announcer / Fetcher; a state is non-trivial when it is "
        "reached by at least two calls after construction and still accepts calls (counted by the engine); plus "
        "random configurations over 7-9 nodes recorded from the implementation and validated by TraceSync")


def sig_of(r):
    calls = r.get("path") or []
    cfg = calls[0][1] if calls else {}
    ops = [[c[0], c[1], c[2]] for c in calls[1:]]
    if r.get("call"):
        ops.append(r["call"])
    return f"{r['m']} cfg={json.dumps(cfg, separators=(',', ':'), sort_keys=True)} calls={json.dumps(ops, separators=(',', ':'))} {r['what']}"


def model_run(ctx, cfg, label, workers, timeout, emit=True):
    res = ctx.tlc("MCSync", cfg, workers=workers, timeout=timeout, coverage=False, heap="6g", label=label)
    ctx.tlc_ok(res, cfg)
    if res.violated:
        ctx.violation(f"model:{cfg}:{res.violated}", "the transcribed state machine violates the statement in the bounded model",
                      {"tlc_counterexample": res.error_trace[:120]})
        return None
    if emit and (len(res.cases) != res.distinct - 1 or not res.cases):
        raise vlib.ToolError(f"{cfg}: TLC emitted {len(res.cases)} cases for {res.distinct} states")
    return res


def run(ctx):
    thorough = ctx.tier == "thorough"
    ctx.build(ENGINE)
    # 0. sanity: the two original behaviours must be rejected by TLC
    dev = ctx.tlc("MCSync", "MCSyncF_dev.cfg", workers=2, timeout=300, coverage=False, count=False,
                  label="sanity: fetcher counting every pushed result must violate the invariants")
    if dev.violated not in ("FeSuccessIffTarget", "FeCountsSound"):
        raise vlib.ToolError("sanity run: original fetcher model was not rejected by TLC")
    dev = ctx.tlc("MCSync", "MCSyncA_dev.cfg", workers=2, timeout=300, coverage=False, count=False,
                  label="sanity: synced_with(local) answering Continue after the target must violate AnSuccessIffTarget")
    if dev.violated != "AnSuccessIffTarget":
        raise vlib.ToolError("sanity run: original announcer model was not rejected by TLC")
    # 1. design level + case emission
    t = "t" if thorough else "q"
    w = 8 if thorough else 6
    ra = model_run(ctx, f"MCSyncA_{t}.cfg", "announcer, exhaustive: all configurations over local + 2 nodes", w, 3000 if thorough else 600)
    rf = model_run(ctx, f"MCSyncF_{t}.cfg", "fetcher, exhaustive: all configurations over local + 2 nodes", w, 3000 if thorough else 600) if ra else None
    if ra is None or rf is None:
        return ctx.finish(rule=RULE)
    if thorough:
        for cfg, lab in (("MCSyncA_t4.cfg", "announcer, local + 3 nodes, design level only (no cases)"),
                         ("MCSyncF_t4.cfg", "fetcher, local + 3 nodes, design level only (no cases)")):
            if model_run(ctx, cfg, lab, 8, 3000, emit=False) is None:
                return ctx.finish(rule=RULE)
    cases = ra.cases + rf.cases
    # vacuity guards on what the model says: successes, refusals, ignored local node, hand-outs
    def rets(c):
        return [s[3] for s in c["path"]] + [o[3] for o in c["outs"]]
    kinds = set()
    for c in cases:
        for r in rets(c):
            if isinstance(r, dict):
                kinds.add((c["m"], r.get("k")))
    need = {("announcer", "break"), ("announcer", "continue"), ("announcer", "TimedOut"), ("announcer", "Success"),
            ("announcer", "NoNodes"), ("announcer", "AlreadySynced"), ("announcer", "NoSeeds"), ("announcer", "Target"),
            ("fetcher", "break"), ("fetcher", "continue"), ("fetcher", "TargetReached"), ("fetcher", "TargetError"),
            ("fetcher", "NoCandidates"), ("fetcher", "Target")}
    if not need <= kinds:
        raise vlib.ToolError(f"vacuous case set: never seen {sorted(need - kinds)}")
    # 2. spec -> implementation
    path = ctx.write_cases(cases)
    out = os.path.join(ctx.work, "verdicts.ndjson")
    ctx.engine(ENGINE, ["--mode", "replay", "--cases", path, "--out", out, "--threads", 8])
    recs = ctx.read_ndjson(out)
    summary = [r for r in recs if r.get("summary")][0]
    drifts = [r for r in recs if r.get("drift")]
    for r in recs:
        if r.get("summary") or r.get("drift"):
            continue
        ctx.violation(sig_of(r), f"real {r['m']} disagrees with Sync.tla at call #{r.get('step')}: {r['what']}; "
                                 f"expected {json.dumps(r.get('expected'))[:250]} got {json.dumps(r.get('actual'))[:250]}", r)
    if summary["failures"] and not ctx.violations and not ctx.known_hits:
        raise vlib.ToolError("engine reported failures but none were listed")
    ctx.cov["evaluations"] += summary["calls"]
    ctx.cov["traces_validated_against_impl"] += len(cases)
    ctx.cov["distinct_nontrivial"] += summary["states_nontrivial"]
    ctx.cov["drift_replay"] = summary["drift"]
    ctx.cov["drift_samples"] = drifts[:3]
    if summary["drift"]:
        vlib.log("MODEL-DRIFT (not a violation): fields outside the statement differ from the transcription")
    for rs in (ra, rf):
        c = [x for x in rs.cases if len(x["path"]) >= 3][:1]
        ctx.cov["samples"] += [{"m": x["m"], "path": x["path"], "proj": x["proj"], "outs": x["outs"][:3]} for x in c]
    ctx.cov["exhaustive"] = True
    # 3. implementation -> spec
    rec = os.path.join(ctx.work, "rec.ndjson")
    n, nodes = (12000, 9) if thorough else (400, 7)
    ctx.engine(ENGINE, ["--mode", "record", "--n", n, "--nodes", nodes, "--out", rec])
    recorded = ctx.read_ndjson(rec)
    ok, info, tres = ctx.validate("TraceSync", "TraceSync.cfg", rec, timeout=3000 if thorough else 600)
    if not ok:
        at = tres.distinct
        bad = recorded[at - 1] if 0 < at <= len(recorded) else None
        start = max(i for i in range(at) if recorded[i]["op"] == "new") if bad else 0
        hist = recorded[start:at]
        ctx.violation("recorded " + json.dumps([[r["m"], r["op"], r["arg"], r["ok"]] for r in hist], separators=(",", ":"))[:500],
                      "a recorded call of the real sync state machine is not the corresponding step of Sync.tla, or an "
                      "invariant of Sync.tla is false in the recorded state", {"history": hist, "tlc": info})
    else:
        ctx.cov["traces_validated_against_impl"] += sum(1 for r in recorded if r["op"] == "new")
        ctx.cov["evaluations"] += len(recorded)
        ctx.cov["recorded_calls"] = len(recorded)
        ctx.cov["samples"] += recorded[:3]
    ctx.assumptions += ["target of a Range replication factor = its upper bound, as documented and implemented (DESIGN.md section 5)",
                        "a node's result is the first one reported for it (FetchResults::get)",
                        "nodes not mentioned in the configuration (unknown nodes) count like any other node",
                        "the fetcher's preferred seeds are taken as configured; if the local node is among them that part of "
                        "the target is unreachable and the replica count decides (not flagged)"]
    return ctx.finish(rule=RULE)


def replay(ctx, path):
    ctx.build(ENGINE)
    d = json.load(open(path))["replay"]
    if "history" in d:
        p = ctx.write_cases(d["history"], "one.ndjson")
        ok, info, _ = ctx.validate("TraceSync", "TraceSync.cfg", p)
        print("recorded history is", "accepted" if ok else f"rejected: {info.get('rejected') or info.get('violated')}")
        ctx.cleanup()
        return 0
    print("machine:", d["m"], "calls:", json.dumps(d["path"]), "then", json.dumps(d.get("call")))
    print("model expects:", json.dumps(d.get("expected")))
    # rebuild a case: path steps need their expected returns; use the recorded expectation only for the last call
    steps = [[c[0], c[1], c[2], None] for c in d["path"]]
    case = {"m": d["m"], "path": steps, "proj": [], "outs": []}
    cp = ctx.write_cases([case], "c.ndjson")
    out = os.path.join(ctx.work, "o.ndjson")
    ctx.engine(ENGINE, ["--mode", "trace", "--cases", cp, "--out", out] + (["--call", json.dumps(d["call"])] if d.get("call") else []))
    for r in ctx.read_ndjson(out):
        print("real code:", json.dumps(r))
    ctx.cleanup()
    return 0
