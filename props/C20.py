"""C20 Signed refs text round-trips and signatures bind exactly what is accepted (spec/SigRefs.tla)."""
import json
import os
import vlib

ENGINE = "c20_sigrefs"
INVS = "RoundTrip CanonInjective AcceptedIsSigned BindsExactly HonestAccepted AcceptedWellFormed"

RULE = ("cases = every reachable state of MCSigRefs: every reference set over the instance's names (incl. refs/rad/root with "
        "targets 'this identity', 'another identity', 'absent object', and zero oids in the signed set) signed by a real key, "
        "then every single-point mutation (thorough: also every pair of mutations on a smaller instance) of the blob (oid, "
        "name, hex spelling, delete / insert / duplicate / swap lines, malformed lines, line terminators), of the signature "
        "(bit flip, re-signing the raw blob or the canonical text by the owner or by another key) and of the claimed key; each "
        "state is rendered to real bytes and real Ed25519 signatures and judged by Refs::from_canonical + "
        "SignedRefs::verified and by SignedRefs::load_at on a real commit in a real repository; non-trivial = at least one "
        "mutation applied; plus larger random sets recorded from the implementation and validated by TLC, and random "
        "byte-level single-point mutations judged by the statement")


def sig_of(r):
    c = r["case"]
    b = ";".join(",".join(str(x) for x in l) for l in c["blob"]["lines"])
    m = ";".join(",".join(str(x) for x in l) for l in c["sig"]["msg"]["lines"])
    return (f"{r['path']} signed={c['signed']} blob=[{b}]{c['blob']['eol']} sig=(key{c['sig']['key']},{'ok' if c['sig']['ok'] else 'bad'},[{m}]{c['sig']['msg']['eol']}) "
            f"claimed={c['claimed']} expected={r['expected']['res']} actual={r['actual']['res']}")


def replay_cases(ctx, cases, nn, root, commit_every, label):
    path = ctx.write_cases(cases, f"cases-{label}.ndjson")
    out = os.path.join(ctx.work, f"verdicts-{label}.ndjson")
    ctx.engine(ENGINE, ["--mode", "replay", "--cases", path, "--out", out, "--nn", nn, "--root", root,
                        "--commit-every", commit_every, "--threads", 6])
    recs = ctx.read_ndjson(out)
    summary = [r for r in recs if r.get("summary")][0]
    for r in recs:
        if r.get("summary"):
            continue
        if not r["ok"]:
            ctx.violation(sig_of(r), f"model expects {json.dumps(r['expected'])}, real code gave {json.dumps(r['actual'])[:400]}", r)
    if summary["accepted"] == 0 or summary["parse_errors"] == 0 or summary["signature_errors"] == 0 or summary["identity_errors"] == 0:
        raise vlib.ToolError(f"vacuous replay: {summary}")
    ctx.cov["evaluations"] += summary["evaluations"]
    ctx.cov["traces_validated_against_impl"] += len(cases)
    ctx.cov["distinct_nontrivial"] += sum(1 for c in cases if c["muts"] > 0)
    ctx.cov.setdefault("error_class_drift", 0)
    ctx.cov["error_class_drift"] += summary["drift"]
    ctx.cov.setdefault("replay_outcomes", []).append({k: summary[k] for k in ("cases", "accepted", "parse_errors", "signature_errors", "identity_errors")})
    return summary


def run(ctx):
    thorough = ctx.tier == "thorough"
    ctx.build(ENGINE)
    runs = [("MCSigRefs_t.cfg", 4, 3, 1), ("MCSigRefs_t2.cfg", 2, 2, 4)] if thorough else [("MCSigRefs_q.cfg", 3, 2, 1)]
    for cfg, nn, root, commit_every in runs:
        res = ctx.tlc("MCSigRefs", cfg, workers=8 if thorough else 4, timeout=3000 if thorough else 600, coverage=True,
                      label="exhaustive: signed sets x mutations; invariants " + INVS)
        ctx.tlc_ok(res, "MCSigRefs")
        if res.violated:
            ctx.violation(f"model:{res.violated}", "the modelled reader violates the statement in the bounded model",
                          {"tlc_counterexample": res.error_trace[:80]})
            return ctx.finish(rule=RULE)
        if not res.cases:
            raise vlib.ToolError("TLC emitted no cases")
        ctx.require_coverage(res, ["SetOid", "SetName", "SetForm", "DeleteLine", "InsertRef", "InsertBad", "SwapLines", "SetEol",
                                   "CorruptSig", "ResignBlob", "ResignCanon", "Reclaim"])
        # vacuity: mutated objects that are still accepted must exist (equivalent spellings, re-signing)
        if not any(c["res"] == "ok" and c["muts"] > 0 for c in res.cases):
            raise vlib.ToolError("vacuous case set: no mutated object is accepted")
        replay_cases(ctx, res.cases, nn, root, commit_every, cfg[:-4])
        ctx.cov["samples"] += [c for c in res.cases if c["muts"] > 0 and c["res"] == "ok"][:1] + [c for c in res.cases if c["res"] == "identity"][:1]
    ctx.cov["exhaustive"] = True
    # deliberately wrong readers must be rejected by TLC
    variants = (("VerifyBlob", "AcceptedIsSigned"), ("NoRootCheck", "AcceptedWellFormed"), ("KeepZero", "AcceptedWellFormed"))
    for variant, inv in (variants if thorough else variants[ctx.seed % 3:][:1]):
        dev = ctx.tlc("MCSigRefs", f"MCSigRefs_dev_{variant}.cfg", workers=2, timeout=300, coverage=False, count=False,
                      label=f"sanity: reader variant {variant} must violate {inv}")
        if dev.violated != inv:
            raise vlib.ToolError(f"sanity run: variant {variant} was not rejected by TLC ({dev.violated})")
    # implementation -> spec
    rec = os.path.join(ctx.work, "rec.ndjson")
    ctx.engine(ENGINE, ["--mode", "record", "--n", 6000 if thorough else 600, "--fuzz", 40000 if thorough else 3000, "--out", rec])
    recorded = ctx.read_ndjson(rec)
    ok, info, tres = ctx.validate("TraceSigRefs", "TraceSigRefs.cfg", rec, timeout=3000 if thorough else 600)
    if not ok:
        at = tres.distinct - 1
        bad = recorded[at - 1] if 0 < at <= len(recorded) else None
        ctx.violation(f"recorded load {json.dumps(bad, separators=(',', ':'))}"[:600],
                      f"recorded outcome of the real reader violates {info.get('violated')} of SigRefs", {"record": bad, "tlc": info})
    else:
        ctx.cov["traces_validated_against_impl"] += len(recorded)
        ctx.cov["evaluations"] += 2 * len(recorded)
        ctx.cov["samples"] += recorded[:1]
        ok2, _, _ = ctx.validate("TraceSigRefs", "TraceSigRefs_class.cfg", rec, timeout=3000 if thorough else 600, label="drift (informational): error class")
        ctx.cov["error_class_drift_recorded_trace"] = (not ok2)
    for r in ctx.read_ndjson(rec.replace(".ndjson", ".fuzz.ndjson")):
        if r.get("summary"):
            ctx.cov["byte_level_mutations"] = r["byte_mutations"]
            ctx.cov["byte_level_mutations_accepted_as_equivalent_spelling"] = r["accepted_equivalent_spelling"]
            ctx.cov["evaluations"] += r["byte_mutations"]
        else:
            ctx.violation(f"byte-mutation {r['clause']} blob={r.get('blob', '')!r}"[:500], r["clause"], r)
    ctx.assumptions += [
        "Ed25519 signatures are unforgeable (modelled as the pair (key, message)); a changed signature is one flipped bit",
        "reference names are drawn from fixed tables of valid names (incl. names at the edge of git's rules and non-ASCII); "
        "malformed lines from fixed tables of invalid names / oids",
        "the identity-root clause is exercised with commits of two real identities and an absent object",
        "spellings of a line that do not change its bytes are not separate mutations (SigRefs!FormApplies, WellFormedBlob)",
    ]
    return ctx.finish(rule=RULE)


def replay(ctx, path):
    ctx.build(ENGINE)
    d = json.load(open(path))["replay"]
    case = d.get("case") or d.get("record") or d
    nn = len(case["signed"])
    # the Root position is part of the instance, not of the case: recover it from the names if present
    root = 0
    if "names" in d:
        root = d["names"].index("refs/rad/root") + 1 if "refs/rad/root" in d["names"] else 0
    else:
        root = 6 if nn == 10 else 2
    c = dict(case)
    c.setdefault("muts", 1)
    cp = ctx.write_cases([c], "one.ndjson")
    out = os.path.join(ctx.work, "o.ndjson")
    ctx.engine(ENGINE, ["--mode", "replay", "--cases", cp, "--out", out, "--nn", nn, "--root", root, "--threads", 1])
    print("case:", json.dumps(case))
    for r in ctx.read_ndjson(out):
        print(json.dumps(r)[:2000])
    ctx.cleanup()
    return 0
