"""Shared by props/C01.py and props/C02.py: both bind spec/Fetch.tla to radicle_fetch::{clone,pull}
through the engine c01_fetch; they differ in scenario families, sampling keys and statement checks."""
import json
import os
import random
import vlib

ENGINE = "c01_fetch"
ACTIONS = ["StageCanonicalId", "StageSpecialRefs", "LoadSigrefs", "StageDataRefs", "ValidateOne", "Gate",
           "ApplyOne", "Finish"]

# ancestry of the model's sigrefs commits (old, new) -> relation; used by the statement checks that
# are evaluated on the REAL before/after projections, independently of the model's expectation
def sig_ancestry(old, new):
    if old == new:
        return "Equal"
    if old == "v1.ok" and new.split(".")[0] in ("v2", "v2f"):
        return "Ahead"
    if new == "v1.ok" and old.split(".")[0] in ("v2", "v2f"):
        return "Behind"
    return "Diverged"


def compact(c):
    """A short, stable description of a scenario (used in signatures and samples)."""
    def sg(s):
        return "-" if s["ver"] == "none" else f"{s['ver']}.{s['fl']}"
    srv = ",".join(f"{sg(s['sig'])}/{s['rid']}/{s['junk']}" for s in c["srv"])
    loc = ",".join(sg(l) for l in c["loc"])
    ra = ""
    if c.get("useRefsAt"):
        ra = " refsAt=" + ",".join(f"{r['ns']}@{r['ver']}" for r in sorted(c["refsAt"], key=lambda r: r["ns"]))
    fo = "all" if c.get("followAll", True) else "followed" + json.dumps(sorted(c.get("followed", [])), separators=(",", ":"))
    return (f"{c['mode']} delegates={sorted(c['delegates'])} thr={c['threshold']} local={c['local']} "
            f"blocked={sorted(c['blocked'])} scope={fo}{ra} srv=[{srv}] loc=[{loc}]")


def offers_noroot(c):
    return any(s["sig"]["fl"] == "noRoot" and s["sig"]["ver"] != "none" for s in c["srv"])


def stratified(cases, key, budget, seed):
    """Order cases so that a prefix of any length covers the classes `key` evenly; returns the list
    reordered (all cases) -- the caller cuts it or gives the engine a time budget."""
    rnd = random.Random(seed)
    groups = {}
    for c in cases:
        groups.setdefault(key(c), []).append(c)
    for g in groups.values():
        rnd.shuffle(g)
    keys = sorted(groups, key=lambda k: json.dumps(k, default=str))
    rnd.shuffle(keys)
    out = []
    i = 0
    while len(out) < len(cases):
        progressed = False
        for k in keys:
            g = groups[k]
            if i < len(g):
                out.append(g[i])
                progressed = True
        if not progressed:
            break
        i += 1
    return out[:budget] if budget else out, len(groups)


def tlc_cases(ctx, cfg, label, timeout, workers=4, heap="4g"):
    res = ctx.tlc("MCFetch", cfg, workers=workers, timeout=timeout, coverage=True, label=label, heap=heap)
    ctx.tlc_ok(res, f"MCFetch/{cfg}")
    return res


def expect_rejected(ctx, cfg, invariant, what):
    """A deliberately wrong variant of the model (a historical deviation switched on): TLC must find
    the named invariant violated -- shows the invariant is not vacuous on these families."""
    dev = ctx.tlc("MCFetch", cfg, workers=4, timeout=600, coverage=False, count=False,
                  label=f"sanity: {what} must violate {invariant}")
    if dev.timed_out:
        raise vlib.ToolError(f"sanity run {cfg} timed out")
    if dev.violated != invariant:
        raise vlib.ToolError(f"sanity run {cfg}: expected {invariant} to be violated, got {dev.violated!r}\n{dev.out[-1500:]}")


def replay(ctx, cases, threads, budget_secs, name="cases.ndjson"):
    """Returns (failure/drift records, stats, the cases that were actually run)."""
    path = ctx.write_cases([dict(c, _i=i) for i, c in enumerate(cases)], name)
    out = os.path.join(ctx.work, name + ".verdicts")
    ctx.engine(ENGINE, ["--mode", "replay", "--cases", path, "--out", out, "--threads", threads,
                        "--budget-secs", budget_secs], timeout=budget_secs * 3 + 600)
    recs = ctx.read_ndjson(out)
    summ = [r for r in recs if r.get("summary")][0]
    ran = [dict(cases[i], _i=i) for i in summ.get("done", [])]
    return [r for r in recs if not r.get("summary")], summ["stats"], ran


def judge(ctx, prop, r, extra_checks):
    """One verdict record of the engine (a case whose real outcome differs from the model's, or
    whose fetcher-side validate_remote oracle complains) -> violation / known finding / drift."""
    c, o = r["case"], r["outcome"]
    desc = compact(c)
    if not hasattr(ctx, "drift"):
        ctx.drift = []
    if r.get("ok"):
        return "drift"
    before, after = o["before"], o["after"]
    # D1 repaired: a root-less blob is refused => the whole fetch errors and nothing is written
    if offers_noroot(c) and o["result"] == "Error" and before == after and not o["oracle"]:
        return "drift"
    if o["oracle"]:
        ctx.violation(f"{prop} oracle: {desc} -> {o['result']} {'; '.join(o['oracle'])[:200]}",
                      "after the real fetch, the fetcher's own Repository::remote/validate_remote rejects a namespace the fetch changed",
                      {"case": c, "outcome": o})
        return "violation"
    problems = extra_checks(c, o)
    exp = c["exp"]
    what = []
    if not r["result_ok"]:
        what.append(f"result {o['result']} (model: {exp['result']}{'/' + exp['err'] if exp.get('err') else ''}) [{o['detail'][:120]}]")
    if not r["state_ok"]:
        diff = [i + 1 for i, (a, e) in enumerate(zip(after, exp["loc"]))
                if a["refs"] != dict(e["refs"] or {}) or a["sig"] != ("none" if e["sig"]["ver"] == "none" else f"{e['sig']['ver']}.{e['sig']['fl']}")]
        what.append(f"storage differs from the model in namespaces {diff}")
    if problems:
        ctx.violation(f"{prop} statement: {desc} -> {'; '.join(problems)}",
                      "the real fetch violates the property statement: " + "; ".join(problems) + " | " + "; ".join(what),
                      {"case": c, "outcome": o})
        return "violation"
    # The real outcome differs from the model's prediction, but the statement -- evaluated on the
    # real before/after state, and the fetcher's own validate_remote -- holds: the model is more
    # exact than the property. Logged as drift (BUILDING.md: the statement is the bar).
    ctx.drift.append({"scenario": desc, "what": "; ".join(what)})
    return "drift"


def known_noroot(ctx, prop, cases, verdict_cases):
    """D1 (open finding): a namespace ends up at a sigrefs commit without refs/rad/root. Reported for
    cases that were replayed and on which the real code agreed with the deviation-enabled model."""
    bad = {r["case"].get("_i") for r in verdict_cases if not r.get("ok")}
    n = 0
    for i, c in enumerate(cases):
        if c.get("_i", -1) in bad:
            continue
        for ns, (l, l0) in enumerate(zip(c["exp"]["loc"], c["loc"]), 1):
            if l["sig"]["fl"] == "noRoot" and l["sig"]["ver"] != "none" and l["sig"] != l0:
                ctx.violation(f"{prop} noRoot-accepted: namespace takes a signed refs blob without refs/rad/root",
                              "SignedRefs::verify accepts a refs blob that names no repository", {"case": c})
                n += 1
                break
    return n


def record_and_validate(ctx, prop, n, nns, threads, extra_checks, cfg="TraceFetch.cfg", budget_secs=100000, at_least=30):
    """Record n seeded random runs of the real fetch and let TLC validate them against Fetch.tla.
    A record TLC cannot explain is judged like a replay divergence: violation if the fetcher's own
    validate_remote or the statement (evaluated on the real before/after state) fails, drift
    otherwise; it is then dropped and the rest of the trace validated again.
    Returns (recorded runs, number accepted by TLC, number judged as drift)."""
    rec = os.path.join(ctx.work, "rec.ndjson")
    ctx.engine(ENGINE, ["--mode", "record", "--n", n, "--ns", nns, "--out", rec, "--threads", threads,
                        "--budget-secs", budget_secs], timeout=budget_secs * 3 + 600)
    recorded = ctx.read_ndjson(rec)
    if len(recorded) < min(n, at_least):
        raise vlib.ToolError(f"record mode produced only {len(recorded)} of {n} runs within {budget_secs}s")
    if not hasattr(ctx, "drift"):
        ctx.drift = []
    todo = list(recorded)
    drift = 0
    for attempt in range(12):
        path = ctx.write_cases(todo, f"rec-{attempt}.ndjson")
        ok, info, tres = ctx.validate("TraceFetch", cfg, path, timeout=3000)
        if ok:
            return recorded, len(todo), drift
        at = reject_at(info)
        if not at or not (0 < at <= len(todo)):
            raise vlib.ToolError(f"trace validation rejected without a usable record index: {info}")
        bad = todo.pop(at - 1)
        sc = {k: v for k, v in bad.items() if k != "out"}
        o = bad["out"]
        desc = compact(sc)
        problems = extra_checks(sc, o)
        if o.get("oracle"):
            ctx.violation(f"{prop} oracle: {desc} -> {o['result']} {'; '.join(o['oracle'])[:200]}",
                          "recorded run rejected by TLC; the fetcher's own Repository::remote/validate_remote rejects a namespace the fetch changed",
                          {"record": bad, "tlc": info})
        elif problems:
            ctx.violation(f"{prop} statement: {desc} -> {'; '.join(problems)}",
                          "recorded run rejected by TLC and the real before/after state violates the statement: " + "; ".join(problems),
                          {"record": bad, "tlc": info})
        elif o["result"] == "Panic":
            ctx.violation(f"{prop} panic: {desc} -> {o['detail'][:160]}", "the real fetch panicked", {"record": bad})
        else:
            drift += 1
            ctx.drift.append({"scenario": desc, "what": f"recorded run ({o['result']}) is not a behaviour of Fetch.tla, statement holds"})
    raise vlib.ToolError("more than 12 recorded runs rejected by TLC")


def reject_at(info):
    import re
    m = re.search(r"at=(\d+)", info.get("rejected", "") or "")
    return int(m.group(1)) if m else None


OBSERVATIONS = [
    ("no canonical refs/rad/id advertised (was: panic in CanonicalId::prepare_updates, stage.rs:204; fixed 76abef2)",
     {"mode": "clone", "delegates": [1], "threshold": 1, "local": 0, "blocked": [], "followAll": True, "followed": [],
      "useRefsAt": False, "refsAt": [], "canon": False,
      "srv": [{"sig": {"ver": "v1", "fl": "ok"}, "rid": "i1", "junk": "none"}, {"sig": {"ver": "v2", "fl": "ok"}, "rid": "i2", "junk": "none"}],
      "loc": [{"ver": "none", "fl": "ok"}, {"ver": "none", "fl": "ok"}]}),
    ("signed refs list a name that is not qualified (was: panic in DataRefs::prepare_updates, stage.rs:471; fixed e471139)",
     {"mode": "clone", "delegates": [1], "threshold": 1, "local": 0, "blocked": [], "followAll": True, "followed": [],
      "useRefsAt": False, "refsAt": [], "canon": True,
      "srv": [{"sig": {"ver": "v1", "fl": "ok"}, "rid": "i1", "junk": "none"}, {"sig": {"ver": "v2", "fl": "unqual"}, "rid": "i2", "junk": "none"}],
      "loc": [{"ver": "none", "fl": "ok"}, {"ver": "none", "fl": "ok"}]}),
]


def observations(ctx):
    """Non-gating: two inputs outside C01/C02 on which radicle-fetch used to panic. Reported in the
    evidence file only, never as a violation."""
    path = ctx.write_cases([c for _, c in OBSERVATIONS], "obs.ndjson")
    out = os.path.join(ctx.work, "obs.out")
    ctx.engine(ENGINE, ["--mode", "run", "--cases", path, "--out", out, "--threads", 1])
    res = []
    recs = [r for r in ctx.read_ndjson(out) if "outcome" in r]
    for (what, c) in OBSERVATIONS:
        o = next((r["outcome"] for r in recs if r["case"] == c), None)
        res.append({"input": what, "result": o and o["result"], "detail": o and o["detail"][:160],
                    "storage_unchanged": bool(o) and o["before"] == o["after"]})
    return res
