"""C14 Frame decoding is memory-bounded and chunking-independent (spec/Wire.tla).

Also provides `c13_part(ctx)`: the wire part of C13 (no bytes from a remote peer crash the node),
called from props/C13.py.
"""
import json
import os
import re
import vlib

ENGINE = "c14_frames"
ACTIONS = ["InputAny", "DeserializeFrame", "DeserializeIncomplete", "DeserializeError"]

RULE = ("cases = every stream (initial state) of the bounded Wire model: all single frames of the class product "
        "{version ok/bad} x {stream-id width 1,2,4,8} x {control open/close/eof/bad x id width | gossip valid/overlong/"
        "truncated/invalid | git | unknown kind} x {length width 1,2,4,8} x {declared small, 200000, 2^30-1, >=2^31 "
        "(concretised as 2^31-1, 2^31, 2^32+1, 2^40, 2^62-1)} x {complete | short}, pairs and triples of a reduced set; "
        "TLC explores every chunking of every stream; each stream is concretised into real bytes (several random "
        "concretisations) and fed to the real Deserializer<MAX_INBOX_SIZE, Frame> under all compositions (<= 12 bytes) or "
        "whole/bytewise/all 1-cuts/all-or-sampled 2-cuts/random multi-cuts; after every chunk delivered frames (count and "
        "content), open/error status and unparsed length are compared with the model and the allocation observed by a "
        "counting global allocator is compared with K + Growth*received. Non-trivial stream = more than one frame, or a "
        "frame that is short or declares more than K bytes (counted per distinct stream). Plus seeded random/mutated byte "
        "strings (whole-vs-chunked agreement, allocation, no panic/abort) and random larger streams recorded from the "
        "implementation and validated by TLC against TraceWire.tla.")


def cfg_constants(name):
    txt = open(os.path.join(vlib.SPEC, name)).read()
    return {k: int(v) for k, v in re.findall(r"^\s*(K|Growth|MaxInbox)\s*=\s*(\d+)", txt, re.M)}


def describe(r):
    if r["fail"] == "abort":
        return (f"the decoder process died (signal {r.get('signal')}) while decoding a stream whose frame class is "
                f"{r.get('what')}: memory allocation of the declared length failed / aborted")
    return (f"{r['fail']} mismatch after {r.get('at_fed')} received bytes (split {r.get('split')}): "
            f"expected {r.get('expected')}; real decoder: {r.get('actual')}")


def model_cases(ctx, cfg, label, timeout, workers, count=True):
    res = ctx.tlc("MCWire", cfg, workers=workers, timeout=timeout, coverage=True, label=label, count=count)
    ctx.tlc_ok(res, f"MCWire/{cfg}")
    return res


def run_replay(ctx, cases, name, variants, maxsplits, procs, consts, idxbase=0):
    path = ctx.write_cases(cases, f"{name}.ndjson")
    out = os.path.join(ctx.work, f"{name}-verdicts.ndjson")
    ctx.engine(ENGINE, ["--mode", "replay", "--cases", path, "--out", out, "--procs", procs, "--variants", variants,
                        "--maxsplits", maxsplits, "--k", consts["K"], "--growth", consts["Growth"], "--idxbase", idxbase])
    recs = ctx.read_ndjson(out)
    summary = [r for r in recs if r.get("summary")][0]
    return [r for r in recs if not r.get("summary")], summary


def run_fuzz(ctx, n, procs, consts, idxbase=0):
    out = os.path.join(ctx.work, "fuzz-verdicts.ndjson")
    ctx.engine(ENGINE, ["--mode", "fuzz", "--n", n, "--out", out, "--procs", procs,
                        "--k", consts["K"], "--growth", consts["Growth"], "--idxbase", idxbase])
    recs = ctx.read_ndjson(out)
    summary = [r for r in recs if r.get("summary")][0]
    return [r for r in recs if not r.get("summary")], summary


def run(ctx):
    thorough = ctx.tier == "thorough"
    ctx.build(ENGINE)
    workers = 8 if thorough else 4
    procs = 8 if thorough else 6
    main_cfg = "MCWire_t.cfg" if thorough else "MCWire_q.cfg"
    consts = cfg_constants(main_cfg)

    # 1. Design level: every chunking of every stream of the bounded model; the transcribed decoder
    #    satisfies the declarative statement (C14_Mem, C14_Chunking, C14_Invalid, ...).
    res = model_cases(ctx, main_cfg, "exhaustive: all streams x all chunkings; invariants TypeOK BufAligned C14_Mem "
                      "C14_Chunking C14_Invalid OutputsInOrder NoSpuriousError", 3000 if thorough else 600, workers)
    if res.violated:
        ctx.violation(f"model:{res.violated}", "the transcribed decoder violates the C14 statement in the bounded model",
                      {"tlc_counterexample": res.error_trace[:120]})
        return ctx.finish(rule=RULE)
    ctx.require_coverage(res, ACTIONS)
    cases = res.cases
    if len(cases) < 100:
        raise vlib.ToolError(f"TLC emitted only {len(cases)} cases")
    # vacuity guards on the case set
    kinds = {f["kind"] for c in cases for f in c["frames"]}
    inners = {f["inner"] for c in cases for f in c["frames"]}
    if not ({"control", "gossip", "git", "unknown"} <= kinds and {"valid", "overlong", "truncated", "invalid"} <= inners):
        raise vlib.ToolError("vacuous case set: frame classes missing")
    if not any(f["declared"] >= 2147483647 for c in cases for f in c["frames"]):
        raise vlib.ToolError("vacuous case set: no huge declared length")
    if not any(c["fb"] > len(c["frames"]) and len(c["frames"]) > 1 for c in cases) or not any(c["fb"] <= len(c["frames"]) for c in cases):
        raise vlib.ToolError("vacuous case set: need good multi-frame streams and streams with a bad frame")

    # 2. The two behaviours of the code as found must be rejected by TLC (documents the fixed findings and
    #    shows the invariants are not vacuous).
    dev = ctx.tlc("MCWire", "MCWire_dev.cfg", workers=4, timeout=600, coverage=False, count=False,
                  label="sanity: `vec![0; declared]` deviation must violate C14_Mem")
    if dev.violated != "C14_Mem":
        raise vlib.ToolError("sanity run: allocate-declared model was not rejected by TLC")
    dev2 = ctx.tlc("MCWire", "MCWire_dev2.cfg", workers=4, timeout=600, coverage=False, count=False,
                   label="sanity: inner-EOF-as-incomplete deviation must violate C14_Invalid")
    if dev2.violated != "C14_Invalid":
        raise vlib.ToolError("sanity run: inner-EOF-as-incomplete model was not rejected by TLC")

    # 3. The bounded-inbox instance (MaxInbox = 16): overflow => disconnect.
    ovf = model_cases(ctx, "MCWire_ovf.cfg", "exhaustive, small inbox bound (overflow action)", 600, 4)
    if ovf.violated:
        ctx.violation(f"model-overflow:{ovf.violated}", "the small-inbox instance violates an invariant",
                      {"tlc_counterexample": ovf.error_trace[:120]})
        return ctx.finish(rule=RULE)
    if not ovf.cases:
        raise vlib.ToolError("overflow instance emitted no cases")

    # 4. spec -> implementation
    fails, summ = run_replay(ctx, cases, "cases", 3 if thorough else 2, 500 if thorough else 300, procs, consts)
    fails2, summ2 = run_replay(ctx, ovf.cases, "ovfcases", 2, 300, 4, consts)
    for r in fails + fails2:
        ctx.violation(r["sig"], describe(r), r)
    c1, c2 = summ["counts"], summ2["counts"]
    if not ctx.violations and (c1.get("frames_delivered", 0) == 0 or c1.get("error_outcomes", 0) == 0):
        raise vlib.ToolError("vacuous replay: no frames delivered or no error outcomes")
    ctx.cov["evaluations"] += c1["evaluations"] + c2["evaluations"]
    ctx.cov["distinct_nontrivial"] += c1.get("nontrivial", 0) + c2.get("nontrivial", 0)
    ctx.cov["traces_validated_against_impl"] += len(cases) + len(ovf.cases)
    ctx.cov["samples"] += [cases[0], cases[len(cases) // 2], cases[-1], ovf.cases[-1]]
    ctx.cov["replay"] = {"streams": len(cases), "split_runs": c1["evaluations"], "frames_delivered": c1["frames_delivered"],
                         "error_outcomes": c1["error_outcomes"], "worker_deaths": summ["deaths"],
                         "max_alloc_observed": summ.get("max_alloc_observed"),
                         "overflow_streams": len(ovf.cases), "overflow_split_runs": c2["evaluations"]}
    ctx.cov["exhaustive"] = not (fails or fails2)

    # 5. Random and mutated byte strings: chunking independence without any model (whole vs. chunked),
    #    allocation bound, no panic / abort.
    ffails, fsumm = run_fuzz(ctx, 500000 if thorough else 20000, procs, consts)
    for r in ffails:
        ctx.violation(r["sig"], describe(r), r)
    fc = fsumm["counts"]
    if not ctx.violations and (not any(k.startswith("class:") and "declared=>=2^31" in k for k in fc) or fc.get("error_outcomes", 0) == 0):
        raise vlib.ToolError("vacuous random run: no huge declared lengths or no error outcomes")
    ctx.cov["evaluations"] += fc["evaluations"]
    ctx.cov["random_bytes"] = {"inputs": fc["inputs"], "frames_delivered": fc["frames_delivered"],
                               "error_outcomes": fc["error_outcomes"], "worker_deaths": fsumm["deaths"],
                               "input_classes": {k[6:]: v for k, v in fc.items() if k.startswith("class:")}}

    # 6. implementation -> spec: recorded executions validated by TLC
    rec = os.path.join(ctx.work, "rec.ndjson")
    # the real ENCODER: frames built by the real constructors with payload lengths and stream ids at every
    # boundary between varint widths, encoded by Frame::to_bytes, fed in chunks of 1 / 13 / 1000 / 16384 / all
    # bytes: the decoder must deliver exactly those frames in order
    renc = os.path.join(ctx.work, "realenc.ndjson")
    ctx.engine(ENGINE, ["--mode", "realenc", "--n", 400 if thorough else 60, "--out", renc])
    rrecs = ctx.read_ndjson(renc)
    rsum = [r for r in rrecs if r.get("summary")][0]
    for r in rrecs:
        if not r.get("summary"):
            sizes = sorted({f[2] for f in r["frames"] if f[0] == "git"})
            ctx.violation(f"realenc chunk={r['chunk']} git-payloads={sizes[:6]}",
                          f"the encoding of {json.dumps(r['frames'])[:300]} fed in chunks of {r['chunk']} does not decode to those frames: {r['breach']}",
                          {"engine": ENGINE, "mode": "realenc", "frames": r["frames"], "chunk": r["chunk"], "breach": r["breach"]})
    ctx.cov["real_encoder_roundtrip"] = {"streams": rsum["streams"], "frames": rsum["frames"]}
    ctx.cov["evaluations"] += rsum["streams"]
    ctx.engine(ENGINE, ["--mode", "record", "--n", 8000 if thorough else 1200, "--out", rec])
    events = ctx.read_ndjson(rec)
    runs = sum(1 for e in events if e["ev"] == "reset")
    ok, info, tres = ctx.validate("TraceWire", "TraceWire.cfg", rec, timeout=3000 if thorough else 600)
    if not ok:
        at = tres.distinct - 1
        bad = events[at] if 0 <= at < len(events) else None
        # the stream the offending event belongs to
        k = at
        while k > 0 and events[k]["ev"] != "reset":
            k -= 1
        ctx.violation(f"recorded:{(bad or {}).get('ev')}:{(bad or {}).get('res')}",
                      f"event #{at + 1} recorded from the real deserializer is not a step of Wire.tla (or breaks an invariant): {json.dumps(bad)}",
                      {"event_index": at, "event": bad, "stream": events[k] if events else None,
                       "events_of_run": events[k:at + 1][-40:], "tlc": info})
    else:
        ctx.cov["traces_validated_against_impl"] += runs
        ctx.cov["evaluations"] += len(events)
        ctx.cov["recorded"] = {"runs": runs, "events": len(events),
                               "frames": sum(1 for e in events if e.get("res") == "frame"),
                               "errors": sum(1 for e in events if e.get("res") == "error")}
        ctx.cov["samples"] += events[:3]
        # binding self-test: a corrupted log must be rejected
        if thorough:
            selftest(ctx, events)

    ctx.assumptions += [
        "K = 131072 bytes and Growth = 2: the bound checked is `allocation of one input/deserialize_next call <= K + 2*received` "
        "(Vec's amortised doubling is allocator policy, not peer-controlled); realloc is counted as the size difference",
        "gossip payload classes are concretised with ping/pong messages (replay) and qcheck-generated messages of every type (record/random)",
        "declared lengths >= 2^31 are run under RLIMIT_AS = 3 GiB in child processes",
        "the Wire reactor loop itself (sockets, Noise session) is not executed: the engine reproduces its input/deserialize loop",
    ]
    return ctx.finish(rule=RULE)


def selftest(ctx, events=None):
    """Corrupt one logged observable / drop one event: TraceWire must reject (else exit 2)."""
    standalone = events is None
    if standalone:
        ctx.build(ENGINE)
        rec = os.path.join(ctx.work, "rec.ndjson")
        ctx.engine(ENGINE, ["--mode", "record", "--n", 300, "--out", rec])
        events = ctx.read_ndjson(rec)
    idx = [i for i, e in enumerate(events) if e["ev"] == "next" and e.get("res") == "frame"]
    if not idx:
        raise vlib.ToolError("selftest: no frame event recorded")
    i = idx[len(idx) // 2]
    saved = (ctx.cov["states"], ctx.cov["transitions"])
    for name, mut in (("buflen", lambda ev: ev[:i] + [dict(ev[i], buflen=ev[i]["buflen"] + 1)] + ev[i + 1:]),
                      ("drop", lambda ev: ev[:i] + ev[i + 1:]),
                      ("res", lambda ev: ev[:i] + [dict(ev[i], res="none")] + ev[i + 1:])):
        p = ctx.write_cases(mut(events), f"selftest-{name}.ndjson")
        ok, _, _ = ctx.validate("TraceWire", "TraceWire.cfg", p, timeout=900, label=f"selftest: corrupted trace ({name}) must be rejected")
        if ok:
            raise vlib.ToolError(f"selftest: corrupted trace ({name}) was accepted")
    ctx.cov["states"], ctx.cov["transitions"] = saved
    ctx.cov["selftest"] = "3 corrupted traces rejected"
    if standalone:
        print("selftest ok: 3 corrupted traces rejected")
        ctx.cleanup()
        return 0


def replay(ctx, path):
    """Re-run one reported behaviour against the current tree and print model vs. real."""
    ctx.build(ENGINE)
    d = json.load(open(path))["replay"]
    consts = cfg_constants("MCWire_q.cfg")
    if d.get("model") and d.get("frames"):
        case = dict(d["model"], frames=d["frames"])
        fails, summ = run_replay(ctx, [case], "one", int(d.get("variant", 0)) + 1, 100000, 1, consts, idxbase=int(d["case"]))
        print(json.dumps({"case": case}))
    elif "bytes" in d and d.get("fail") != "abort" or d.get("frames") is None:
        fails, summ = run_fuzz(ctx, 1, 1, consts, idxbase=int(d["case"]))
    else:
        fails, summ = [], {"counts": {}}
    for r in fails:
        print(json.dumps(r))
    print("reproduced" if fails else "not reproduced", json.dumps(summ.get("counts")))
    ctx.cleanup()
    return 1 if fails else 0


def c13_part(ctx, count_states=False):
    """Wire part of C13: every frame class x split, and seeded random + mutated frame bytes, through the
    real decoder in child processes; a panic or abort is a violation (signature = class of the input).
    Returns counts."""
    thorough = ctx.tier == "thorough"
    ctx.build(ENGINE)
    consts = cfg_constants("MCWire_q.cfg")
    res = ctx.tlc("MCWire", "MCWire_q.cfg", workers=4, timeout=900, coverage=False, count=count_states,
                  label="C13 wire part: frame classes (streams of Wire.tla)")
    ctx.tlc_ok(res, "MCWire_q (C13)")
    if res.violated or len(res.cases) < 100:
        raise vlib.ToolError("C13 wire part: no frame cases from the Wire model")
    procs = 8 if thorough else 6
    fails, summ = run_replay(ctx, res.cases, "c13cases", 3 if thorough else 2, 300, procs, consts)
    ffails, fsumm = run_fuzz(ctx, 500000 if thorough else 20000, procs, consts)
    crashes = [r for r in fails + ffails if r["fail"] in ("panic", "abort")]
    for r in crashes:
        ctx.violation("wire:" + r["sig"], "remote bytes crash the frame decoder: " + describe(r), r)
    return {"frame_streams": len(res.cases), "split_runs": summ["counts"]["evaluations"],
            "random_inputs": fsumm["counts"]["inputs"], "random_runs": fsumm["counts"]["evaluations"],
            "worker_deaths": summ["deaths"] + fsumm["deaths"], "crashes": len(crashes),
            "other_mismatches": len(fails) + len(ffails) - len(crashes),
            "sample": res.cases[len(res.cases) // 3]}
