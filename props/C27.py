"""C27 SSH agent client never panics; key/signature encodings round-trip (spec/SshAgent.tla)."""
import json
import os
import vlib

ENGINE = "c27_sshagent"

RULE = ("cases = every finished call of the bounded model: {request_identities, sign, query_extension, reply-ignoring calls} x "
        "the reply family (every prefix of every well-formed identities answer with <= 1/2 entries of 7 key-blob classes and of a "
        "sign response, single-field distortions of every count / declared length / type byte, signature lengths 0..128), the "
        "reply bytes being fed verbatim to the real AgentClient through a mock ClientStream; gating = no panic; non-trivial = "
        "replies on which the call does real parsing (identities answers, sign responses, extension replies) rather than "
        "dismissing the message by its type byte; plus random mutated replies recorded from the implementation and validated by "
        "TLC; the encode/decode half of C27 is plain round-trip testing, reported separately under roundtrip_plain_testing")


def sig_of(r):
    return f"agent op={r['op']} resp={json.dumps(r['resp'], separators=(',', ':'))} -> {r['actual']['out']}"


def nontrivial(c):
    r = c["resp"]
    return bool(r) and ((c["op"] == "identities" and r[0] == 12) or (c["op"] == "sign" and r[0] == 14) or c["op"] == "query")


def run(ctx):
    thorough = ctx.tier == "thorough"
    ctx.build(ENGINE)
    # 1. design level
    cfg = "MCSshAgent_t.cfg" if thorough else "MCSshAgent_q.cfg"
    res = ctx.tlc("MCSshAgent", cfg, workers=4, timeout=3000 if thorough else 900, coverage=True,
                  label="exhaustive: invariants NoPanic CursorInBounds IterBound Sizes TypeChecked WellFormedUnderstood FuncAgrees; properties Forward Termination")
    ctx.tlc_ok(res, "MCSshAgent")
    if res.violated:
        ctx.violation(f"model:{res.violated}", "the transcribed agent client violates the statement in the bounded model",
                      {"tlc_counterexample": res.error_trace[:80]})
        return ctx.finish(rule=RULE)
    ctx.require_coverage(res, ["IdStart", "IdReadCount", "IdReadEntry", "IdFinish", "SignStart", "SignReadSig", "QueryStart", "OtherStart"])
    cases = res.cases
    # vacuity: keys returned, signatures returned, every error class, the empty reply
    def count(p):
        return sum(1 for c in cases if p(c))
    if not (count(lambda c: c["op"] == "identities" and c["out"] == "ok" and c["val"]) and
            count(lambda c: c["op"] == "sign" and c["out"] == "ok") and
            count(lambda c: c["errk"] == "encoding") and count(lambda c: c["errk"] == "protocol") and
            count(lambda c: c["errk"] == "failure") and count(lambda c: c["op"] == "identities" and c["resp"] == []) and
            all(c["out"] in ("ok", "err") for c in cases)):
        raise vlib.ToolError("vacuous or inconsistent case set")
    # 2. the parsing as it was before the repairs must be rejected by TLC
    dev = ctx.tlc("MCSshAgent", "MCSshAgent_dev.cfg", workers=2, timeout=600, coverage=False, count=False,
                  label="sanity: resp[0] on an empty reply / copy_from_slice of a short signature must violate NoPanic")
    if dev.violated != "NoPanic":
        raise vlib.ToolError("sanity run: original parsing was not rejected by TLC")
    # 3. spec -> implementation
    cpath = ctx.write_cases(cases)
    out = os.path.join(ctx.work, "verdicts.ndjson")
    ctx.engine(ENGINE, ["--mode", "replay", "--cases", cpath, "--out", out])
    recs = ctx.read_ndjson(out)
    summary = [r for r in recs if r.get("summary")][0]
    for r in recs:
        if not r.get("summary") and not r["ok"]:
            ctx.violation(sig_of(r), f"real client panicked: {r['detail']}; the model expects {r['expected']['out']}", r)
    ctx.cov["evaluations"] += summary["evaluations"]
    ctx.cov["distinct_nontrivial"] += sum(1 for c in cases if nontrivial(c))
    ctx.cov["traces_validated_against_impl"] += len(cases)
    ctx.cov["samples"] += [c for c in cases if c["op"] == "identities" and c["out"] == "ok" and c["val"]][:1]
    ctx.cov["samples"] += [c for c in cases if c["op"] == "sign" and c["errk"] == "protocol" and c["resp"][:1] == [14]][:1]
    ctx.cov["exhaustive"] = True
    ctx.cov["drift_replay"] = summary["drift"]
    # 4. implementation -> spec
    rec = os.path.join(ctx.work, "rec.ndjson")
    n = 30000 if thorough else 3000
    ctx.engine(ENGINE, ["--mode", "record", "--n", n, "--out", rec])
    recorded = ctx.read_ndjson(rec)
    ok, info, tres = ctx.validate("TraceSshAgent", "TraceSshAgent.cfg", rec, timeout=3000 if thorough else 900,
                                  label="trace validation: NoPanic + drift invariants Sizes TypeChecked FuncAgrees")
    drift_trace = False
    if not ok and info.get("violated") in ("Sizes", "TypeChecked", "FuncAgrees"):
        drift_trace = True
        ok, info, tres = ctx.validate("TraceSshAgent", "TraceSshAgent_gate.cfg", rec, timeout=3000 if thorough else 900,
                                      label="trace validation: NoPanic")
    if not ok:
        at = tres.distinct - 1
        bad = recorded[at - 1] if 0 < at <= len(recorded) else None
        b = bad or {}
        ctx.violation(f"recorded agent op={b.get('op')} resp={json.dumps(b.get('resp'), separators=(',', ':'))} -> {b.get('out')}",
                      f"recorded call violates {info.get('violated')}", {"record": bad, "tlc": info})
    else:
        ctx.cov["traces_validated_against_impl"] += len(recorded)
        ctx.cov["evaluations"] += len(recorded)
        ctx.cov["distinct_nontrivial"] += sum(1 for r in recorded if nontrivial(r))
        ctx.cov["samples"] += recorded[:1]
    ctx.cov["drift_recorded_trace_rejected"] = drift_trace
    if summary["drift"] or drift_trace:
        vlib.log(f"MODEL-DRIFT (not a violation): outcomes differ from the transcribed parser (replay: {summary['drift']}, recorded trace rejected: {drift_trace})")
    # 5. second half of C27: plain round-trip testing (no model involved; labelled as such)
    rt = os.path.join(ctx.work, "rt.ndjson")
    ctx.engine(ENGINE, ["--mode", "roundtrip", "--n", 20000 if thorough else 2000, "--out", rt])
    rrecs = ctx.read_ndjson(rt)
    rsum = [r for r in rrecs if r.get("summary")][0]
    for r in rrecs:
        if not r.get("summary"):
            f = r["roundtrip"]
            ctx.violation(f"roundtrip {f.get('what')} {json.dumps(f, separators=(',', ':'))[:200]}",
                          "value written in the SSH wire encoding did not read back unchanged", f)
    ctx.cov["roundtrip_plain_testing"] = dict(rsum, technique="property-based round-trip testing, not model checking",
                                              note="PublicKey::write emits string(blob) while PublicKey::read expects the blob's inside; "
                                                   "the pair round-trips through the agent protocol framing (read_string, then read), which is what is tested; "
                                                   "public_key_direct_read_of_write_ok counts direct read(write(k)) successes")
    rsum.pop("summary", None)
    ctx.assumptions += ["a u32 with a non-zero top byte is represented by 2^24 in the model (replies are far shorter)",
                        "the transport (UnixStream::request: length prefix, read_exact) is outside the model; the mock returns the reply body",
                        "64-bit usize: position + len cannot overflow"]
    return ctx.finish(rule=RULE)


def replay(ctx, path):
    ctx.build(ENGINE)
    d = json.load(open(path))["replay"]
    r = d.get("record") or d
    exp = r.get("expected") or {"out": r.get("out"), "errk": r.get("errk"), "val": r.get("val")}
    case = {"op": r["op"], "resp": r["resp"], "out": exp["out"], "errk": exp["errk"], "val": exp["val"]}
    p = ctx.write_cases([case], "one.ndjson")
    out = os.path.join(ctx.work, "o.ndjson")
    ctx.engine(ENGINE, ["--mode", "replay", "--cases", p, "--out", out])
    bad = False
    for x in ctx.read_ndjson(out):
        print(json.dumps(x))
        bad |= (not x.get("summary")) and not x["ok"]
    ctx.cleanup()
    return 1 if bad else 0
