"""C02 Fetches respect the delegate threshold and never rewind delegate sigrefs (spec/Fetch.tla, engine c01_fetch)."""
import importlib.util
import json
import os
import vlib

_spec = importlib.util.spec_from_file_location("_fetch", os.path.join(os.path.dirname(os.path.abspath(__file__)), "_fetch.py"))
F = importlib.util.module_from_spec(_spec)
_spec.loader.exec_module(F)

PROP = "C02"
RULE = ("cases = terminal states of MCFetch families delegates (delegates 1..k, every threshold, local node = no namespace / "
        "delegate 1 [thorough: any namespace], clone and pull, every combination of per-delegate offered states absent / "
        "missing / new / behind / equal / ahead / diverged / badsig / badref / idfork) and blockdel (a blocked delegate): one real "
        "fetch each (real storages, real signed rad/sigrefs commits, real radicle_fetch::clone/pull); compared: result "
        "variant and every namespace's projection; on divergence the statement is evaluated on the real before/after "
        "state. distinct = (mode, #delegates, threshold, local role, multiset of delegate states, model result); "
        "non-trivial = at least one delegate is not simply new/equal/ahead, or the local node is a delegate.")


def dstate(c, d):
    s, l = c["srv"][d - 1], c["loc"][d - 1]
    sv = "-" if s["sig"]["ver"] == "none" else f"{s['sig']['ver']}.{s['sig']['fl']}"
    return f"{l['ver'] if l['ver'] != 'none' else '-'}>{sv}"


def key(c):
    lo = c["local"]
    role = "none" if lo == 0 else ("delegate" if lo in c["delegates"] else "other")
    return (c["mode"], len(c["delegates"]), c["threshold"], role, bool(c["blocked"]),
            json.dumps(sorted(dstate(c, d) for d in c["delegates"])), c["exp"]["result"], c["exp"].get("err", ""))


def nontrivial(c):
    plain = {"->v1.ok", "v1>v1.ok", "v1>v2.ok", "->v2.ok"}
    return c["local"] in c["delegates"] or any(dstate(c, d) not in plain for d in c["delegates"])


def blocked_eff(c):
    b = set(c["blocked"])
    if c["mode"] == "pull" and c["local"] != 0:
        b.add(c["local"])
    return b


def statement_checks(c, o):
    """C02 evaluated on the real before/after projections (no model involved)."""
    problems = []
    for d in c["delegates"]:
        b, a = o["before"][d - 1]["sig"], o["after"][d - 1]["sig"]
        if a != b and b != "none" and F.sig_ancestry(b, a) != "Ahead":
            problems.append(f"delegate {d}: rad/sigrefs moved {b} -> {a} ({F.sig_ancestry(b, a)})")
    dels = set(c["delegates"]) - blocked_eff(c)
    thr = c["threshold"] - (1 if c["local"] in c["delegates"] else 0)
    if o["result"] == "Failed" and o["before"] != o["after"]:
        problems.append("fetch reported failure but storage changed")
    if o["result"] == "Success" and c.get("fewOffered"):
        # the threshold is about this fetch: delegates the peer does not offer with valid signed refs do not count
        problems.append(f"fetch succeeded although fewer than {thr} delegates were offered with valid signed refs")
    if o["result"] == "Success":
        valid = [d for d in dels if d in o.get("validAfter", [])]
        if len(valid) < thr:
            problems.append(f"fetch succeeded with {len(valid)} valid delegates, threshold {thr}")
    return problems


def run(ctx):
    thorough = ctx.tier == "thorough"
    ctx.build(F.ENGINE)
    threads = 8
    cfg = "MCFetch_c02_t.cfg" if thorough else "MCFetch_c02_q.cfg"
    res = F.tlc_cases(ctx, cfg, "exhaustive: families delegates (k<=3) / blockdel; invariants C02_Gate C02_FewImpliesFailure C02_FewOfferedImpliesFailure C02_FailedUnchanged NoRewindAny ErrorBeforeApplyUnchanged C01_*; property C02_NoRewind",
                      timeout=2400 if thorough else 600)
    if res.violated:
        ctx.violation(f"model:{res.violated}", "Fetch.tla violates the invariant in the bounded model (design-level counterexample)",
                      {"tlc_counterexample": res.error_trace[:120]})
        return ctx.finish(rule=RULE)
    ctx.require_coverage(res, F.ACTIONS)
    cases = res.cases
    if len(cases) < 1000:
        raise vlib.ToolError(f"TLC emitted only {len(cases)} cases")
    # vacuity guards: all three result variants; the gate refuses with storage to lose; local-delegate discount used
    if not {"Success", "Failed", "Error"} <= {c["exp"]["result"] for c in cases}:
        raise vlib.ToolError("vacuous case set: a result variant never occurs")
    if not any(c["exp"]["result"] == "Failed" and any(s["sig"]["fl"] == "ok" and s["sig"]["ver"] == "v2" and l["ver"] == "v1"
                                                        for s, l in zip(c["srv"], c["loc"])) for c in cases):
        raise vlib.ToolError("vacuous case set: no failed fetch that had an applicable update")
    if not any(c["local"] in c["delegates"] and c["exp"]["result"] == "Success" for c in cases):
        raise vlib.ToolError("vacuous case set: local delegate never succeeds")
    # NOT a property of the design: an error in the middle of the non-atomic application leaves
    # earlier updates written. TLC must find that (shows ApplyOne really is step-wise).
    F.expect_rejected(ctx, "MCFetch_c02_dev.cfg", "AtomicOnError", "atomic-on-error")
    big = None
    if thorough:
        big = F.tlc_cases(ctx, "MCFetch_c02_t4.cfg", "exhaustive: 4 delegates x 10 states each, every threshold, local none / delegate 1, clone and pull (a slice is emitted and sampled for replay)", timeout=3000, workers=6, heap="8g")
        if big.violated:
            ctx.violation(f"model:{big.violated}", "Fetch.tla violates the invariant in the 4-delegate instance", {"tlc_counterexample": big.error_trace[:120]})
            return ctx.finish(rule=RULE)
    # spec -> implementation
    ordered, nclasses = F.stratified(cases, key, 0, ctx.seed)
    if not thorough:
        ordered = ordered[:420]
    verdicts, stats, ran = F.replay(ctx, ordered, threads, int(os.environ.get('VERIF_FETCH_BUDGET', 450 if thorough else 60)))
    done = stats.get("evaluations", 0)
    if done < (25 if not thorough else 300):
        raise vlib.ToolError(f"only {done} scenarios replayed within the time budget")
    drift = sum(1 for r in verdicts if F.judge(ctx, PROP, r, statement_checks) == "drift")
    stats_all = dict(stats)
    if big is not None:
        o4, n4 = F.stratified(big.cases, key, 3000, ctx.seed)
        v4, s4, ran4 = F.replay(ctx, o4, threads, 200, name="cases4.ndjson")
        drift += sum(1 for r in v4 if F.judge(ctx, PROP, r, statement_checks) == "drift")
        done += s4.get("evaluations", 0)
        ran += ran4
        nclasses += n4
        stats_all = {k: stats.get(k, 0) + s4.get(k, 0) for k in set(stats) | set(s4)}
    ctx.cov["evaluations"] += done
    ctx.cov["traces_validated_against_impl"] += done
    ctx.cov["distinct_nontrivial"] += len({key(c) for c in ran if nontrivial(c)})
    ctx.cov["scenario_classes_in_model"] = nclasses
    ctx.cov["replay_stats"] = stats_all
    ctx.cov["model_drift_records"] = drift
    ctx.cov["model_drift_samples"] = getattr(ctx, "drift", [])[:5]
    ctx.cov["samples"] += [F.compact(c) + " => " + c["exp"]["result"] for c in ordered[:4]]
    ctx.cov["exhaustive"] = bool(thorough and stats.get("skipped_budget", 0) == 0)
    if drift:
        vlib.log(f"MODEL-DRIFT (not a violation): {drift} replayed scenarios where the real fetch refused more than the model")
    # implementation -> spec: random scenarios with 4 namespaces, up to 3 delegates, validated by TLC
    n = 600 if thorough else 60
    recorded, accepted, rdrift = F.record_and_validate(ctx, PROP, n, 4, threads, statement_checks,
                                                         budget_secs=200 if thorough else 60, at_least=200 if thorough else 30)
    ctx.cov["traces_validated_against_impl"] += accepted
    ctx.cov["evaluations"] += len(recorded)
    ctx.cov["recorded_runs"] = len(recorded)
    ctx.cov["recorded_runs_accepted_by_tlc"] = accepted
    ctx.cov["model_drift_records"] += rdrift
    ctx.cov["model_drift_samples"] = getattr(ctx, "drift", [])[:5]
    ctx.cov["samples"] += [F.compact({k: v for k, v in recorded[0].items() if k != "out"}) + " => " + recorded[0]["out"]["result"]]
    ctx.assumptions += ["the identity document (delegates, threshold) is the same on both sides and does not change during the fetch",
                        "git's object transfer is correct; Ed25519 is unforgeable",
                        "'delegates with valid signed refs' = delegates (not blocked) whose namespace, after the fetch, holds a rad/sigrefs that verifies and matches its references",
                        "a fetch that fails although enough delegates would be valid is not a violation of the statement (counted as drift if it disagrees with the model)",
                        "failure = FetchResult::Failed; errors raised before the application stage also leave storage unchanged (checked); an abort inside the non-atomic application (diverged rad/id of a delegate) can leave earlier namespaces updated - each still matching its signed refs"]
    return ctx.finish(rule=RULE)


def replay(ctx, path):
    ctx.build(F.ENGINE)
    d = json.load(open(path))["replay"]
    c = d.get("case") or d.get("record") or d
    c = {k: v for k, v in c.items() if k not in ("out",)}
    p = ctx.write_cases([c], "one.ndjson")
    out = os.path.join(ctx.work, "one.out")
    ctx.engine(F.ENGINE, ["--mode", "run", "--cases", p, "--out", out, "--threads", 1])
    for r in ctx.read_ndjson(out):
        if "outcome" in r:
            print("scenario:", F.compact(c))
            if "exp" in c:
                print("model   :", c["exp"]["result"], json.dumps(c["exp"]["loc"]))
            print("real    :", r["outcome"]["result"], r["outcome"]["detail"])
            print("before  :", json.dumps(r["outcome"]["before"]))
            print("after   :", json.dumps(r["outcome"]["after"]))
            print("oracle  :", r["outcome"]["oracle"], "valid after:", r["outcome"]["validAfter"])
    ctx.cleanup()
    return 0
