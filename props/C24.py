"""C24 Node databases behave like their simple models (spec/Stores.tla)."""
import collections
import json
import os
import vlib

ENGINE = "c24_stores"
PROPS = ("RoutingTimeMonotone PruneKeepsLocal SyncMovesForward RefsMoveForward SeedingReflectsLastWrite "
         "FollowingReflectsLastWrite AnnouncementReplacedByNewer")

RULE = ("cases = every distinct state of MCStores within the depth bound of its store (routing + address book, sync status, "
        "refs cache, seeding policies, following policies, gossip store), each with the shortest operation sequence reaching it; "
        "for each state the sequence is replayed on a real in-memory sqlite Database / policy Store, the tables read back through "
        "the store's query methods must equal the model's, and then EVERY operation of the instance is applied from that state "
        "(an 'edge') and its return value and resulting tables must be one of the outcomes the model allows; all read methods are "
        "cross-checked after every edge; non-trivial = edges whose operation changes the tables or returns an error; plus random "
        "40-call sequences over larger universes recorded from the real stores and validated step by step by TLC")


def sig_of(r):
    return (f"{r['w']} {r['what']} hist={json.dumps(r['hist'], separators=(',', ':'))} op={json.dumps(r['op'], separators=(',', ':'))} "
            f"-> {json.dumps(r.get('actual', {}).get('ret'))}")


def run(ctx):
    thorough = ctx.tier == "thorough"
    ctx.build(ENGINE)
    runs = ([("MCStores_t.cfg", 2, 3), ("MCStores_t2.cfg", 2, 2), ("MCStores_t3.cfg", 2, 2)] if thorough
            else [("MCStores_q.cfg", 2, 2)])
    batches = []
    for cfg, nrepos, nnodes in runs:
        res = ctx.tlc("MCStores", cfg, workers=1, timeout=3300 if thorough else 600, coverage=False,
                      heap="8g" if thorough else "4g",
                      label="exhaustive per store up to its depth bound (VIEW hides the history); action properties " + PROPS)
        ctx.tlc_ok(res, "MCStores")
        if res.violated:
            ctx.violation(f"model:{res.violated}", "the transcribed store operations violate the statement in the bounded model",
                          {"tlc_counterexample": res.error_trace[:120]})
            return ctx.finish(rule=RULE)
        if not res.cases:
            raise vlib.ToolError("TLC emitted no cases")
        batches.append((cfg, nrepos, nnodes, res.cases))
    all_cases = [c for b in batches for c in b[3]]
    # vacuity: every store explored, every method has edges, every interesting return value occurs
    per_store = collections.Counter(c["w"] for c in all_cases)
    ops = collections.Counter()
    rets = collections.Counter()
    nontrivial = 0
    multi = 0
    for c in all_cases:
        st = json.dumps(c["st"], sort_keys=True)
        seen = collections.Counter()
        for e in c["succ"]:
            ops[e["op"][0]] += 1
            seen[json.dumps(e["op"])] += 1
            if isinstance(e["ret"], (bool, str)) or e["ret"] == 0:
                rets[(e["op"][0], json.dumps(e["ret"]))] += 1
            if json.dumps(e["st"], sort_keys=True) != st or e["ret"] == "err":
                nontrivial += 1
        multi += sum(1 for v in seen.values() if v > 1)
    need_ops = ["node_insert", "node_remove", "add_inventory", "remove_inventory", "remove_inventories", "prune", "synced", "refs_set",
                "refs_delete", "seed", "set_seed_policy", "unseed", "unblock_rid", "follow", "set_follow_policy", "unfollow",
                "unblock_nid", "announced", "set_relay", "relays", "gossip_prune"]
    missing = [o for o in need_ops if ops[o] == 0]
    need_rets = [("add_inventory", '"err"'), ("synced", '"err"'), ("synced", "false"), ("synced", "true"), ("refs_set", "false"),
                 ("announced", "0"), ("seed", "false"), ("follow", "false"), ("unblock_rid", "true"), ("unblock_nid", "true")]
    missing += [str(r) for r in need_rets if rets[r] == 0]
    if len(per_store) != 6 or missing or multi == 0:
        raise vlib.ToolError(f"vacuous case set: stores={dict(per_store)} missing={missing} nondeterministic-prunes={multi}")
    # deliberately wrong stores must be rejected by TLC (includes the seed/follow behaviour before the repair)
    variants = (("SeedKeepsBlock", ("SeedingReflectsLastWrite", "FollowingReflectsLastWrite")), ("SyncIgnoresHead", ("SyncMovesForward",)),
                ("PruneForgetsLocal", ("PruneKeepsLocal",)), ("AnnNewerOrEqual", ("AnnouncementReplacedByNewer",)))
    for variant, props in (variants if thorough else (variants[0], variants[1 + ctx.seed % 3])):
        dev = ctx.tlc("MCStores", f"MCStores_dev_{variant}.cfg", workers=1, timeout=300, coverage=False, count=False,
                      label=f"sanity: store variant {variant} must violate {' / '.join(props)}")
        if dev.violated not in props:
            raise vlib.ToolError(f"sanity run: variant {variant} was not rejected by TLC ({dev.violated})")
    # spec -> implementation
    tot = collections.Counter()
    for cfg, nrepos, nnodes, bc in batches:
        cases = ctx.write_cases(bc, f"cases-{cfg[:-4]}.ndjson")
        out = os.path.join(ctx.work, f"verdicts-{cfg[:-4]}.ndjson")
        ctx.engine(ENGINE, ["--mode", "replay", "--cases", cases, "--out", out, "--repos", nrepos, "--nodes", nnodes,
                            "--procs", 8 if thorough else 6], timeout=3000)
        os.remove(cases)
        recs = ctx.read_ndjson(out)
        summary = [r for r in recs if r.get("summary")][0]
        for r in recs:
            if r.get("summary"):
                continue
            exp = json.dumps(r.get("expected"))[:500]
            act = json.dumps(r.get("actual"))[:400]
            ctx.violation(sig_of(r), f"{r['what']}: model allows {exp}; real store gave {act} {r.get('problems') or ''} {r.get('detail') or ''}", r)
        if summary["states_reached"] + summary["states_on_other_branch"] != len(bc) and not ctx.violations:
            raise vlib.ToolError(f"replay did not visit every case: {summary}")
        for k, v in summary.items():
            if k != "summary":
                tot[k] += v
    if tot["states_on_other_branch"] > len(all_cases) // 4:
        raise vlib.ToolError(f"too many states skipped as nondeterministic: {dict(tot)}")
    ctx.cov["evaluations"] += tot["calls"]
    ctx.cov["traces_validated_against_impl"] += tot["states_reached"]
    ctx.cov["edges_checked"] = tot["edges"]
    ctx.cov["edges_with_several_allowed_outcomes"] = tot["edges_with_several_allowed_outcomes"]
    ctx.cov["states_reached_only_through_a_prune_branch_the_database_did_not_take"] = tot["states_on_other_branch"]
    ctx.cov["distinct_nontrivial"] += nontrivial
    ctx.cov["states_per_store"] = dict(per_store)
    ctx.cov["edges_per_method"] = dict(ops)
    ctx.cov["samples"] += [{"w": c["w"], "hist": c["hist"], "st": c["st"], "edges": len(c["succ"])}
                           for c in all_cases[len(all_cases) // 3::max(1, len(all_cases) // 5)][:3]]
    ctx.cov["exhaustive"] = tot["states_on_other_branch"] == 0
    # implementation -> spec
    rec = os.path.join(ctx.work, "rec.ndjson")
    ctx.engine(ENGINE, ["--mode", "record", "--n", 2000 if thorough else 150, "--len", 40, "--out", rec])
    recorded = ctx.read_ndjson(rec)
    ok, info, tres = ctx.validate("TraceStores", "TraceStores.cfg", rec, timeout=3000 if thorough else 600, heap="8g" if thorough else "4g")
    if not ok:
        # the record that could not be matched is the one after the last matched state
        k = max(1, min(len(recorded), tres.distinct - 1 if info.get("violated") else tres.distinct))
        bad = recorded[k - 1]
        j = k - 1
        while j > 0 and recorded[j]["op"][0] != "reset":
            j -= 1
        hist = [r["op"] for r in recorded[j + 1:k - 1]]
        ctx.violation(f"{bad['w']} recorded hist={json.dumps(hist, separators=(',', ':'))} op={json.dumps(bad['op'], separators=(',', ':'))} -> {json.dumps(bad['ret'])}",
                      f"recorded call of the real store is not a step of Stores ({info.get('violated') or info.get('rejected')}): "
                      f"ret={json.dumps(bad['ret'])} tables={json.dumps(bad['st'])[:300]} {bad.get('problems')}",
                      {"w": bad["w"], "hist": hist, "op": bad["op"], "record": bad, "tlc": info})
    else:
        runs = sum(1 for r in recorded if r["op"][0] == "reset")
        ctx.cov["traces_validated_against_impl"] += runs
        ctx.cov["recorded_calls_validated"] = len(recorded) - runs
        ctx.cov["evaluations"] += len(recorded) - runs
        ctx.cov["samples"] += [r for r in recorded if r["op"][0] == "prune"][:1]
    ctx.assumptions += [
        "SQLite itself is correct; the model leaves open only which rows a LIMITed prune picks among equal timestamps",
        "timestamps >= 1 for announcements and from <= to for filtered(): the assertions on those inputs are C13's subject",
        "the address book is modelled only as the set of known nodes (foreign keys, ON DELETE CASCADE)",
        "the scope of a blocked repository is not observable through the store's read methods; it is compared when it becomes visible again",
        "one refname per (repo, namespace) in the bounded refs instance; two in the recorded runs",
    ]
    return ctx.finish(rule=RULE)


def replay(ctx, path):
    ctx.build(ENGINE)
    d = json.load(open(path))["replay"]
    hist, op, w = d["hist"], d["op"], d["w"]
    print("store:", w, "history:", json.dumps(hist), "operation:", json.dumps(op))
    # ask the model what it allows after this history (trace validation of history + op with the recorded values),
    # and show what the real store does now
    def engine(case, name):
        cp = ctx.write_cases([case], name + ".ndjson")
        out = os.path.join(ctx.work, name + ".out")
        ctx.engine(ENGINE, ["--mode", "replay", "--cases", cp, "--out", out, "--repos", 4, "--nodes", 5, "--procs", 1])
        return [r for r in ctx.read_ndjson(out) if not r.get("summary")]
    # 1. the tables the real store holds after the history
    st = {"nodes": [], "rows": []}
    for r in engine({"w": w, "hist": hist, "st": st, "succ": []}, "state"):
        if r.get("what") == "state":
            st = r["actual"]["st"]
    print("tables after the history (real store):", json.dumps(st))
    # 2. the operation, judged against the outcomes the model allowed when the violation was found
    if op:
        exp = [{"op": op, "ret": e.get("ret"), "st": e.get("st")} for e in (d.get("expected") or [])]
        print("model allows:", json.dumps([{"ret": e["ret"], "st": e["st"]} for e in exp]))
        res = engine({"w": w, "hist": hist, "st": st, "succ": exp or [{"op": op, "ret": None, "st": {"nodes": [], "rows": []}}]}, "step")
        if not res:
            print("real store now answers inside the allowed outcomes")
        for r in res:
            print("real store:", json.dumps(r.get("actual")), r.get("problems") or "")
    ctx.cleanup()
    return 0
