"""C08 A patch is merged only by a threshold of agreeing delegates (spec/Tracker.tla, engine c08_merge)."""
import os
import sys

sys.path.insert(0, os.path.dirname(os.path.abspath(__file__)))
from concurrent.futures import ThreadPoolExecutor

import vlib
import _tracker as T

ENGINE = "c08_merge"
FAMILIES = ["merge"]
DEVS = {"count": "C08_Step", "lifecycle": "C08_Step", "mergedlive": "X08_MergedRevisionLive", "thr": "C08_Step",
        "mergeany": "C08_Step"}
QUICK_DEVS = 3
REC = {False: (20, 22), True: (60, 30)}
REC_WHAT = "random merge-heavy patch histories (6 actors, 3 documents with thresholds 2,3,2) through storage + cob::get"
RULE = ("cases = every distinct reachable state of the bounded merge instance (3 delegates + 1 stranger, documents with "
        "thresholds 1..n, revisions by different authors, commits on / off the mergers' default branches, redactions, "
        "lifecycle ops), each replayed on the real Patch against a real repository (real refs/heads/master per delegate "
        "namespace, real commit graph) and then hit with every merge / lifecycle / revision / redact op by every actor and "
        "document; non-trivial = states that are merged or in conflict; plus random merge-heavy histories through real "
        "storage evaluated by cob::get, every step validated by TLC against C08Step")


def run(ctx):
    thorough = ctx.tier == "thorough"
    ctx.build(ENGINE)
    bg = ThreadPoolExecutor(max_workers=2)
    f_dev = bg.submit(T.dev_runs, ctx, DEVS if thorough else dict(list(DEVS.items())[:QUICK_DEVS]))
    f_rec = bg.submit(T.record_and_validate, ctx, ENGINE, *REC[thorough], REC_WHAT)
    families = T.dev_subset(FAMILIES)   # developer knob VERIF_TRACKER_FAMILIES, normally all
    results = T.run_families(ctx, families, ctx.tier, workers=6 if thorough else 4, timeout=3000 if thorough else 600)
    stats = {}
    drift_total = 0
    for fam in families:
        res = results[fam]
        ctx.tlc_ok(res, f"MCTracker {fam}")
        if res.violated:
            T.model_violation(ctx, fam, res)
            continue
        recs, summary = T.replay_family(ctx, ENGINE, fam, res, 12 if thorough else 8, stats)
        T.vacuity(fam, summary, need_merged=True)
        cfg = summary["cfg"]
        ctx.cov["evaluations"] += summary["fan"] + summary["log_ops"]
        ctx.cov["distinct_nontrivial"] += summary["merged_states"] + summary["conflict_states"]
        ctx.cov["traces_validated_against_impl"] += summary["cases"]
        viol, drift = T.classify(ctx, recs, cfg, None, fam)
        for rec, why in viol:
            ctx.violation(T.signature(rec, cfg), f"[{fam}] breaks {why}: " + T.describe(rec), dict(rec, cfg=cfg, trace=None))
        drift_total += len(drift) + summary["class_drift"]
        if drift:
            vlib.log(f"MODEL-DRIFT (not a violation) in {fam}: {len(drift)} steps, e.g. {T.signature(drift[0], cfg)}: {T.describe(drift[0])[:300]}")
            stats[fam]["drift_example"] = T.signature(drift[0], cfg)
    f_dev.result()
    end, strict_rejected = T.merge_recorded(ctx, f_rec.result())
    bg.shutdown()
    ctx.cov["exhaustive"] = not ctx.violations and families == FAMILIES
    ctx.cov["samples"] = [{"family": f, **{k: stats[f][k] for k in ("cases", "fan", "merged_states", "conflict_states")}} for f in stats] + ctx.cov["samples"]
    ctx.assumptions += [
        "'the identity threshold' is the threshold of the document the merge op that forms the quorum refers to; a delegate is a "
        "delegate of the document its own merge op refers to",
        "a merged state is sticky by design (Patch.merges doc comment): it is required at the step the patch *becomes* merged "
        "that >= threshold delegates have that (revision, commit) recorded, not for ever after",
        "identity documents are commits carrying embeds/radicle.json read through Repository::identity_doc_at",
        "git2 graph_descendant_of is correct",
    ]
    return ctx.finish(rule=RULE, extra={"families": stats, "drift_steps": drift_total, "recorded": end,
                                        "recorded_strict_rejected": strict_rejected})


def replay(ctx, path):
    return T.replay_file(ctx, ENGINE, path)
