"""C26 Terminal truncation stays within width and never panics (spec/Truncate.tla)."""
import json
import os
import vlib

ENGINE = "c26_truncate"
INVS = "NoPanic, WidthBound, Shape, StrSound, IterBound, FuncAgrees; properties Decreases (variant), Termination"

RULE = ("cases = every input line of the bounded instances (strings: one-item lines of <= 3 (quick) / 5 (thorough) graphemes over 6 realisable "
        "grapheme kinds; lines: <= 3 items of <= 2 graphemes), each evaluated for every width 0..MaxW and every delimiter, with "
        "3 concretisations per case, through Cell::truncate of Line (Label items) and, for one-item lines, of str / String / "
        "Paint<&str> / Paint<String>; gating = no panic, no hang (CPU-time watchdog), Cell::width(result) <= width; "
        "non-trivial = calls whose input is wider than the requested width; plus random calls over a pool of ~55 real clusters "
        "recorded from the implementation and validated by TLC against the module's invariants")


def sig_of(r):
    return (f"truncate api={r['api']} items={json.dumps(r['items'], ensure_ascii=True)} width={r['width']} "
            f"delim={json.dumps(r['delim'], ensure_ascii=True)} -> {r['actual'] if isinstance(r['actual'], str) else 'too wide'}")


def run(ctx):
    thorough = ctx.tier == "thorough"
    ctx.build(ENGINE)
    # 1. design level: transcription of str::truncate and of the Line::truncate loop against the
    #    declarative statement, variant and termination, on two bounded instances
    cases = []
    for cfg, what in (("MCTruncate_t.cfg" if thorough else "MCTruncate_q.cfg", "strings"),
                      ("MCTruncate_tl.cfg" if thorough else "MCTruncate_ql.cfg", "lines")):
        res = ctx.tlc("MCTruncate", cfg, workers=4, timeout=3000 if thorough else 900, coverage=False,
                      label=f"exhaustive ({what}): invariants {INVS}")
        ctx.tlc_ok(res, f"MCTruncate/{cfg}")
        if res.violated:
            ctx.violation(f"model:{cfg}:{res.violated}", "the transcribed truncation violates the statement in the bounded model",
                          {"tlc_counterexample": res.error_trace[:80]})
            return ctx.finish(rule=RULE)
        if not res.cases:
            raise vlib.ToolError(f"TLC emitted no cases for {cfg}")
        cases += res.cases
    seen, uniq = set(), []
    for c in cases:
        k = json.dumps(c["line"])
        if k not in seen:
            seen.add(k)
            uniq.append(c)
    cases = uniq
    # vacuity: some results carry the delimiter (kinds 8-10), some end in kept whitespace, some are empty
    flat = [(c, e) for c in cases for per_w in c["exp"] for e in per_w]
    with_delim = sum(1 for c, e in flat if any(k >= 8 for it in e["o"] for k in it))
    shortened = sum(1 for c, e in flat if e["o"] != c["line"])
    if with_delim == 0 or shortened == 0 or any(e["r"] != "ok" for _, e in flat):
        raise vlib.ToolError("vacuous or inconsistent case set")
    # 2. the original whitespace branch must be rejected by TLC on each of the three counts
    devs = (("MCTruncate_dev.cfg", "NoPanic"), ("MCTruncate_dev2.cfg", "StrSound"), ("MCTruncate_dev3.cfg", "IterBound"))
    for cfg, inv in (devs if thorough else devs[2:]):
        dev = ctx.tlc("MCTruncate", cfg, workers=2, timeout=600, coverage=False, count=False,
                      label=f"sanity: original `self[..boundary + 1]` must violate {inv}")
        if dev.violated != inv:
            raise vlib.ToolError(f"sanity run {cfg}: expected violation of {inv}, got {dev.violated}")
    # 3. spec -> implementation
    cpath = ctx.write_cases(cases)
    out = os.path.join(ctx.work, "verdicts.ndjson")
    ctx.engine(ENGINE, ["--mode", "replay", "--cases", cpath, "--out", out, "--threads", 4, "--variants", 3])
    recs = ctx.read_ndjson(out)
    summary = [r for r in recs if r.get("summary")][0]
    for r in recs:
        if r.get("summary"):
            continue
        if not r["ok"]:
            ctx.violation(sig_of(r), f"real truncation: {r['actual']} ({r['detail']}); expected {r['expected']} within width {r['width']}", r)
    if summary["skipped"] and not ctx.violations:
        raise vlib.ToolError("calls skipped without a recorded hang")
    if summary["truncating"] == 0:
        raise vlib.ToolError("no truncating call was replayed")
    ctx.cov["evaluations"] += summary["evaluations"]
    ctx.cov["distinct_nontrivial"] += summary["truncating"]
    ctx.cov["traces_validated_against_impl"] += len(cases)
    ctx.cov["samples"] += [{"line": c["line"], "exp_width2": c["exp"][2]} for c in cases[200:203]]
    ctx.cov["exhaustive"] = True
    ctx.cov["drift_replay"] = summary["drift"]
    # 4. implementation -> spec
    rec = os.path.join(ctx.work, "rec.ndjson")
    n = 40000 if thorough else 4000
    ctx.engine(ENGINE, ["--mode", "record", "--n", n, "--out", rec])
    recorded = ctx.read_ndjson(rec)
    # one pass with the gating invariants and the drift invariants; a second, gating-only pass when
    # the first one stopped at a drift invariant
    GATING = ("NoPanic", "NoHang", "WidthBound")
    ok, info, tres = ctx.validate("TraceTruncate", "TraceTruncate_all.cfg", rec, timeout=3000 if thorough else 900,
                                  label="trace validation: NoPanic NoHang WidthBound + drift invariants Shape FuncAgrees")
    drift_trace = False
    if not ok and info.get("violated") in ("Shape", "FuncAgrees"):
        drift_trace = True
        ok, info, tres = ctx.validate("TraceTruncate", "TraceTruncate.cfg", rec, timeout=3000 if thorough else 900,
                                      label="trace validation: NoPanic NoHang WidthBound")
    if not ok:
        at = tres.distinct - 1
        bad = recorded[at - 1] if 0 < at <= len(recorded) else None
        t = (bad or {}).get("text", {})
        ctx.violation(f"recorded truncate api={(bad or {}).get('api')} items={json.dumps(t.get('items'), ensure_ascii=True)} "
                      f"width={(bad or {}).get('w')} delim={json.dumps(t.get('delim'), ensure_ascii=True)} -> {(bad or {}).get('res')}",
                      f"recorded call violates {info.get('violated')}", {"record": bad, "tlc": info})
    else:
        ctx.cov["traces_validated_against_impl"] += len(recorded)
        ctx.cov["evaluations"] += len(recorded)
        ctx.cov["distinct_nontrivial"] += sum(1 for r in recorded if r["out"] != r["line"])
        ctx.cov["samples"] += [{k: r[k] for k in ("api", "text", "w", "res", "out")} for r in recorded[:2]]
    ctx.cov["drift_recorded_trace_rejected"] = drift_trace
    if summary["drift"] or drift_trace:
        vlib.log("MODEL-DRIFT (not a violation): real truncation results differ from the transcribed algorithm's "
                 f"(replay: {summary['drift']}, recorded trace rejected: {drift_trace})")
    ctx.assumptions += ["grapheme segmentation (unicode-segmentation) and the width function (unicode-display-width) are taken as given: "
                        "the model is parametric in them and the harness measures the attributes of every cluster with them",
                        "a call that burns 1.5 s of thread CPU time is non-terminating (a call normally takes microseconds)",
                        "width-0 clusters are covered at design level only (the width function in use never returns 0)"]
    return ctx.finish(rule=RULE)


def replay(ctx, path):
    ctx.build(ENGINE)
    d = json.load(open(path))["replay"]
    if "record" in d:
        r = d["record"]
        call = {"api": r["api"], "items": r["text"]["items"], "width": r["w"], "delim": r["text"]["delim"]}
    else:
        call = {k: d[k] for k in ("api", "items", "width", "delim")}
    p = ctx.write_cases([call], "one.ndjson")
    out = os.path.join(ctx.work, "o.ndjson")
    ctx.engine(ENGINE, ["--mode", "call", "--cases", p, "--out", out])
    bad = False
    for r in ctx.read_ndjson(out):
        print(json.dumps(r, ensure_ascii=False))
        bad |= r["result"] != "ok" or r["out_width"] > r["width"]
    print("expected (model):", json.dumps(d.get("expected"), ensure_ascii=False))
    ctx.cleanup()
    return 1 if bad else 0
