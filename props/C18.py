"""C18 Canonical JSON has a single byte representation (spec/CanonJson.tla)."""
import json
import os
import vlib

ENGINE = "c18_canonjson"

INVS = ("StackDiscipline AlgMatchesDefinition FloatsRejected OutputDecodes OutputDenotesValue KeysSorted "
        "Normalised ControlEscaped NoWhitespace ReencodeIsIdentity")

RULE = ("cases = every JSON value of the bounded instance (all strings over an 11-character alphabet with a composing "
        "pair, escapes and space up to the stated length; numbers at the 64-bit bounds and float syntax; objects with every "
        "ordered pair / triple of keys from pools chosen to separate the candidate key orders; arrays; nesting to depth 3); "
        "TLC runs the formatter state machine on each and checks the statement's clauses on its output; every value is "
        "then encoded by the real CanonicalFormatter, cob::store::encoding::encode and Doc::encode and compared byte for "
        "byte with the model, decoded and re-encoded; non-trivial = the value contains an object with >= 2 members, a "
        "non-NFC string, an escaped character or a refused number; plus random larger values recorded from the real "
        "encoder and validated by TLC, and oracle-free clauses on random wide-Unicode values")


def text(cps):
    return "".join(chr(c) for c in cps)


def pretty(v):
    k, p = v
    if k == "null":
        return "null"
    if k == "bool":
        return "true" if p else "false"
    if k == "num":
        return text(p)
    if k == "str":
        return json.dumps(text(p))
    if k == "arr":
        return "[" + ",".join(pretty(x) for x in p) + "]"
    return "{" + ",".join(json.dumps(text(m[0])) + ":" + pretty(m[1]) for m in p) + "}"


def nontrivial(v):
    k, p = v
    if k == "str":
        return any(c < 32 or c in (34, 92) for c in p) or any(p[i] == 101 and p[i + 1] == 769 for i in range(len(p) - 1))
    if k == "num":
        t = text(p)
        return any(c in t for c in ".eE") or len(t) > 18
    if k == "arr":
        return any(nontrivial(x) for x in p)
    if k == "obj":
        return len(p) >= 2 or any(nontrivial(["str", m[0]]) or nontrivial(m[1]) for m in p)
    return False


def run(ctx):
    thorough = ctx.tier == "thorough"
    ctx.build(ENGINE)
    # 1. the formatter state machine computes Canon and its output satisfies every clause of the statement
    cfg = "MCCanonJson_t.cfg" if thorough else "MCCanonJson_q.cfg"
    res = ctx.tlc("MCCanonJson", cfg, workers=8 if thorough else 4, timeout=3000 if thorough else 600, coverage=False,
                  label="exhaustive over the bounded value set; invariants " + INVS)
    ctx.tlc_ok(res, "MCCanonJson")
    if res.violated:
        ctx.violation(f"model:{res.violated}", "the transcribed formatter violates the statement in the bounded model",
                      {"tlc_counterexample": res.error_trace[:80]})
        return ctx.finish(rule=RULE)
    if not res.cases:
        raise vlib.ToolError("TLC emitted no cases")
    refused = sum(1 for c in res.cases if c["exp"] == [-1])
    rawdiff = sum(1 for c in res.cases if not c["raw"])
    collide = sum(1 for c in res.cases if c["v"][0] == "obj" and c["exp"] != [-1]
                  and bytes(c["exp"]).count(b":") < len(c["v"][1]) and all(m[1][0] == "num" for m in c["v"][1]))
    if refused == 0 or rawdiff == 0 or collide == 0 or refused == len(res.cases):
        raise vlib.ToolError(f"vacuous case set (refused={refused} raw-order-differs={rawdiff} colliding-keys={collide})")
    # 2. deliberately wrong formatters must be rejected by TLC (the invariants are not vacuous)
    variants = (("NoSort", "KeysSorted"), ("NoNfc", "Normalised"), ("FloatsPass", "FloatsRejected"))
    for variant, inv in (variants if thorough else variants[ctx.seed % 3:][:1]):
        dev = ctx.tlc("MCCanonJson", f"MCCanonJson_dev_{variant}.cfg", workers=2, timeout=300, coverage=False,
                      count=False, label=f"sanity: variant {variant} must violate {inv}")
        if dev.violated != inv:
            raise vlib.ToolError(f"sanity run: variant {variant} was not rejected by TLC ({dev.violated})")
    # 3. spec -> implementation
    cases = ctx.write_cases(res.cases)
    out = os.path.join(ctx.work, "verdicts.ndjson")
    ctx.engine(ENGINE, ["--mode", "replay", "--cases", cases, "--out", out])
    recs = ctx.read_ndjson(out)
    summary = [r for r in recs if r.get("summary")][0]
    for r in recs:
        if r.get("summary"):
            continue
        f = r["fail"]
        ctx.violation(f"{f['path']} {f['clause']} value={r['value']}",
                      f"expected {r['expected']!r}; {f['path']} gave {json.dumps(f['got'])[:300]}", r)
    ctx.cov["evaluations"] += summary["evaluations"]
    ctx.cov["traces_validated_against_impl"] += len(res.cases)
    ctx.cov["distinct_nontrivial"] += sum(1 for c in res.cases if nontrivial(c["v"]))
    ctx.cov["samples"] += [{"value": pretty(c["v"]), "expected": (bytes(c["exp"]).decode() if c["exp"] != [-1] else "REFUSED")}
                           for c in res.cases[len(res.cases) // 2::max(1, len(res.cases) // 8)][:4]]
    ctx.cov["exhaustive"] = True
    ctx.cov["refused_expected"] = refused
    ctx.cov["objects_with_colliding_keys"] = collide
    # informational: how often ordering by raw key bytes would have produced different output
    ctx.cov["cases_where_raw_key_byte_order_differs_from_emitted_key_order"] = rawdiff
    # 4. implementation -> spec
    rec = os.path.join(ctx.work, "rec.ndjson")
    n = 2500 if thorough else 250
    ctx.engine(ENGINE, ["--mode", "record", "--n", n, "--wide", 200000 if thorough else 20000, "--depth", 4 if thorough else 3,
                        "--out", rec])
    recorded = ctx.read_ndjson(rec)
    ok, info, tres = ctx.validate("TraceCanonJson", "TraceCanonJson.cfg", rec, timeout=3000 if thorough else 600)
    if not ok:
        at = tres.distinct - 1
        bad = recorded[at - 1] if 0 < at <= len(recorded) else None
        shown = None
        if bad:
            shown = {"value": pretty(bad["v"]), "out": (bytes(bad["out"]).decode(errors="replace") if min(bad["out"] + [0]) >= 0 else bad["out"])}
        ctx.violation(f"recorded encoding {json.dumps(shown)}"[:400],
                      f"the recorded output of the real encoder violates {info.get('violated')} of CanonJson", {"record": bad, "tlc": info})
    else:
        ctx.cov["traces_validated_against_impl"] += len(recorded)
        ctx.cov["evaluations"] += 3 * len(recorded)
        ctx.cov["samples"] += [{"value": pretty(r["v"])[:200], "out": bytes(r["out"]).decode(errors="replace")[:200]}
                               for r in recorded[:40] if min(r["out"]) >= 0][:2]
    wide = ctx.read_ndjson(rec.replace(".ndjson", ".wide.ndjson"))
    for r in wide:
        if r.get("summary"):
            ctx.cov["wide_unicode_values_checked"] = r["wide_checked"]
            ctx.cov["evaluations"] += r["wide_checked"]
        else:
            ctx.violation(f"wide-unicode {r['clause']} value={r['value']}"[:400], f"{r['clause']}: {r.get('bytes', '')[:300]}", r)
    ctx.assumptions += [
        "'byte order' of object keys is the order of the keys as emitted (quotes, NFC, JSON escapes), which is what the "
        "formatter's BTreeMap sorts; it differs from the order of the raw key bytes only when an escaped character or a "
        "character below 0x22 (space, '!') decides the comparison (counted in coverage, not a violation)",
        "NFC is modelled on the instance's alphabet (e + U+0301 -> U+00E9); other compositions only through the "
        "unicode-normalization crate in the oracle-free wide-Unicode pass",
        "numbers reach the formatter as serde_json builds them from text (u64 / i64 / f64, no arbitrary_precision)",
        "serde_json is built with preserve_order (as in the workspace): object members are serialised in insertion order",
    ]
    return ctx.finish(rule=RULE)


def replay(ctx, path):
    ctx.build(ENGINE)
    d = json.load(open(path))["replay"]
    rec = d.get("record") or d
    v = rec["v"]
    print("value:", pretty(v))
    if "out" in rec:
        # recorded encoding: re-record is not meaningful; show what the real code gives now via a replay case
        exp = rec["out"]
    else:
        exp = None
    # expected bytes come from the model: evaluate Canon with TLC on this single value
    one = os.path.join(ctx.work, "one.ndjson")
    with open(one, "w") as f:
        f.write(json.dumps({"v": v, "out": [0]}) + "\n")
    ok, info, tres = ctx.validate("TraceCanonJson", "TraceCanonJson_show.cfg", one)
    import re
    m = re.search(r'"CANON", "(.*)"', tres.out)
    canon = json.loads(m.group(1).replace('\\\\', '\x00').replace('\\"', '"').replace('\x00', '\\')) if m else None
    print("model:", (bytes(canon).decode() if canon and canon != [-1] else canon))
    cp = ctx.write_cases([{"v": v, "exp": canon if canon is not None else [-1], "raw": True}], "c.ndjson")
    out = os.path.join(ctx.work, "o.ndjson")
    ctx.engine(ENGINE, ["--mode", "replay", "--cases", cp, "--out", out])
    for r in ctx.read_ndjson(out):
        print(json.dumps(r)[:1500])
    ctx.cleanup()
    return 0
