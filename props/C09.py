"""C09 The COB cache answers exactly like direct evaluation (spec/CobCache.tla)."""
import json
import os
import random
import subprocess
import time
import vlib

ENGINE = "c09_cobcache"

RULE = ("behaviours = maximal-length behaviours of MCCobCache (creations, local operations through the caching handles, removals, "
        "operations/creations/deletions by a peer followed by the real cache_cobs, write_all), a seeded sample of which is replayed "
        "into a real Storage + sqlite cache; after every step every query (get, list, list_by_status per status, counts, "
        "find_by_revision for every identifier issued so far: objects, live and redacted revisions, comments, reviews, unknown) is "
        "issued on Cache<_, StoreWriter> and Cache<_, NoCache>, compared in full with each other and with the model's answer; "
        "non-trivial = behaviour with a peer step and a removal/redaction; plus random longer behaviours recorded from the "
        "implementation and validated by TLC (TraceCobCache)")


def describe(s):
    o = s["op"]
    a = s["a"]
    if a in ("create", "fetchedCreate"):
        return f"{a}({o['kind']} {o['st']} {o['id']})"
    if a in ("local", "fetched"):
        return f"{a}({s['obj']}:{o['k']}" + (f" {o['arg']}" if o.get("arg") else "") + (f" {o['st']}" if o["st"] != "-" else "") + ")"
    if a == "writeAll":
        return f"writeAll({o['kind']})"
    return f"{a}({s['obj']})"


def shape(log):
    return " ".join(describe(e["step"]) for e in log)


def run_engines(ctx, jobs, timeout):
    env = dict(os.environ, VERIF_SEED=str(ctx.seed), RUST_BACKTRACE="0",
               MALLOC_TOP_PAD_="268435456", MALLOC_TRIM_THRESHOLD_="1073741824")
    procs = [subprocess.Popen(["timeout", "-k", "10", str(timeout), ctx.bin(ENGINE)] + [str(a) for a in j],
                              cwd=ctx.work, env=env, stdout=subprocess.PIPE, stderr=subprocess.PIPE, text=True)
             for j in jobs]
    res = []
    for p in procs:
        o, e = p.communicate()
        if p.returncode in (124, 137):
            raise vlib.ToolError(f"engine {ENGINE} timed out")
        if p.returncode != 0:
            raise vlib.ToolError(f"engine {ENGINE} failed rc={p.returncode}\n{e[-3000:]}")
        res.append(o)
    return res


def replay_cases(ctx, cases, tag, nproc):
    chunks = [cases[i::nproc] for i in range(nproc)]
    jobs, outs = [], []
    for i, ch in enumerate(chunks):
        if not ch:
            continue
        p = ctx.write_cases(ch, f"cases-{tag}-{i}.ndjson")
        o = os.path.join(ctx.work, f"verdicts-{tag}-{i}.ndjson")
        outs.append(o)
        jobs.append(["--mode", "replay", "--cases", p, "--out", o])
    t = time.time()
    run_engines(ctx, jobs, 3000)
    vlib.log(f"engine {ENGINE} replay {tag}: {len(cases)} behaviours in {len(jobs)} processes {time.time()-t:.1f}s")
    recs, stats = [], {}
    for o in outs:
        for r in ctx.read_ndjson(o):
            if r.get("summary"):
                for k, v in r["stats"].items():
                    stats[k] = stats.get(k, 0) + v
            else:
                recs.append(r)
    return recs, stats


def report(ctx, r, source):
    what = {"cache-vs-direct": "the cache and direct evaluation answer differently",
            "model": "the real stores answer differently from CobCache.tla",
            "step": "a step could not be executed as in the model"}[r["kind"]]
    detail = "; ".join(r.get("diff") or [r.get("detail", "")])
    steps = r.get("steps") or [e["step"] for e in r["case"]["log"]]
    rep = {"steps": steps, "failed_after": r["shape"]}
    if r["kind"] == "model":
        rep["log"] = r["case"]["log"]       # with the model's answers, so that the replay compares them again
    ctx.violation(f"{r['kind']} [{r['shape']}] {detail[:160]}", f"{what} ({source}): {detail}", rep)


def nontrivial(c):
    acts = [e["step"]["a"] for e in c["log"]]
    ks = [e["step"]["op"]["k"] for e in c["log"]]
    return any(a.startswith("fetched") for a in acts) and (any(a in ("remove", "fetchedDelete") for a in acts) or any(k.startswith("redact") for k in ks))


def run(ctx):
    thorough = ctx.tier == "thorough"
    ctx.build(ENGINE)
    rnd = random.Random(ctx.seed)
    cfg = "MCCobCache_t.cfg" if thorough else "MCCobCache_q.cfg"
    res = ctx.tlc("MCCobCache", cfg, workers=8 if thorough else 6, timeout=3000 if thorough else 600, coverage=False,
                  heap="8g" if thorough else "4g",
                  label="exhaustive: <=2 objects, <=4 (thorough) / 3 (quick) operations, <=5 / 4 steps; invariants QueriesAgree, CacheCoherent")
    ctx.tlc_ok(res, f"MCCobCache/{cfg}")
    if res.violated:
        ctx.violation(f"model:{res.violated}", "the cache design violates the invariant in the bounded model", {"tlc_counterexample": res.error_trace[:120]})
        return ctx.finish(rule=RULE)
    cases = res.cases
    if not cases:
        raise vlib.ToolError("TLC emitted no cases")
    # vacuity guards
    kinds = set()
    for c in cases:
        for e in c["log"]:
            kinds.add(e["step"]["a"])
            kinds.add(e["step"]["op"]["k"])
    need = {"create", "fetchedCreate", "local", "fetched", "remove", "fetchedDelete", "writeAll", "redactRev", "comment", "review", "status"}
    if not need <= kinds:
        raise vlib.ToolError(f"vacuous case set: missing {sorted(need - kinds)}")
    # the three deviations (the code before the fixes) must each be rejected by TLC
    for d in ("JsonTree", "StatusOnly", "RemoveDrops"):
        dev = ctx.tlc("MCCobCache", f"MCCobCache_dev_{d}.cfg", workers=4, timeout=600, coverage=False, count=False,
                      label=f"sanity: deviation {d} must violate QueriesAgree")
        if dev.violated != "QueriesAgree":
            raise vlib.ToolError(f"sanity run: deviation {d} was not rejected by TLC (violated={dev.violated})")
    # spec -> implementation: a seeded sample (interesting behaviours first)
    n = 1200 if thorough else 150
    # stratified: one bucket per multiset of step kinds, served round-robin, so that rare shapes
    # (redactions, review comments, deletions) are always in the sample
    buckets = {}
    for c in cases:
        sig = tuple(sorted(e["step"]["a"] + ":" + e["step"]["op"]["k"] for e in c["log"]))
        buckets.setdefault(sig, []).append(c)
    keys = sorted(buckets)
    rnd.shuffle(keys)
    for k in keys:
        rnd.shuffle(buckets[k])
    chosen = []
    while len(chosen) < n and keys:
        for k in list(keys):
            if buckets[k]:
                chosen.append(buckets[k].pop())
                if len(chosen) >= n:
                    break
            else:
                keys.remove(k)
    ctx.cov["shape_classes"] = len(buckets)
    recs, stats = replay_cases(ctx, chosen, "mc", 8 if thorough else 6)
    for r in recs:
        report(ctx, r, "replay of a behaviour of the bounded model")
    ctx.cov["evaluations"] += stats.get("query_comparisons", 0)
    ctx.cov["traces_validated_against_impl"] += len(chosen)
    ctx.cov["distinct_nontrivial"] += sum(1 for c in chosen if nontrivial(c))
    ctx.cov["samples"] += [shape(c["log"]) for c in chosen[:3]]
    ctx.cov["behaviours_emitted"] = len(cases)
    ctx.cov["steps_replayed"] = stats.get("steps", 0)
    ctx.cov["exhaustive"] = False
    # implementation -> spec
    nproc = 6
    per = 20 if thorough else 5
    steps = 14 if thorough else 10
    jobs, outs = [], []
    for i in range(nproc):
        o = os.path.join(ctx.work, f"rec-{i}.ndjson")
        outs.append(o)
        jobs.append(["--mode", "record", "--n", per, "--steps", steps, "--salt", i + 1, "--out", o])
    t = time.time()
    summaries = run_engines(ctx, jobs, 3000)
    vlib.log(f"engine {ENGINE} record: {nproc * per} behaviours of {steps} steps {time.time()-t:.1f}s")
    failed = False
    for s in summaries:
        for line in s.splitlines():
            if line.startswith("{"):
                for f in json.loads(line)["stats"]["failures"]:
                    failed = True
                    report(ctx, f, "recorded random behaviour")
    if not failed:
        rec = os.path.join(ctx.work, "rec.ndjson")
        with open(rec, "w") as out:
            for o in outs:
                out.write(open(o).read())
        recorded = ctx.read_ndjson(rec)
        ok, info, tres = ctx.validate("TraceCobCache", "TraceCobCache.cfg", rec, timeout=3000 if thorough else 600, heap="6g")
        if not ok:
            at = tres.distinct  # 1-based number of the first record the model cannot follow
            h = []
            for r in recorded[:at]:
                if r["ev"] == "reset":
                    h = []
                else:
                    h.append(r["step"])
            what = info.get("violated") or info.get("rejected")
            ctx.violation(f"recorded behaviour [{' '.join(describe(s) for s in h)}] {what}",
                          "the answers of the real stores after the last step of this behaviour are not the ones CobCache.tla gives (or an invariant fails)",
                          {"steps": h, "record": recorded[at - 1] if 0 < at <= len(recorded) else None, "tlc": info})
        else:
            nb = sum(1 for r in recorded if r["ev"] == "reset")
            ns = sum(1 for r in recorded if r["ev"] == "step")
            ctx.cov["traces_validated_against_impl"] += nb
            ctx.cov["recorded_behaviours"] = nb
            ctx.cov["recorded_steps"] = ns
            ctx.cov["evaluations"] += sum(2 * len(r["ans"]["get"]) + 12 for r in recorded if r["ev"] == "step")
            longest = [r["step"] for r in recorded[1:steps + 1] if r["ev"] == "step"]
            ctx.cov["samples"] += [{"recorded": " ".join(describe(s) for s in longest)}]
    ctx.assumptions += [
        "two namespaces (the local node and one peer); actors are in sync before they act, so object histories are linear and a reference is a prefix of the history",
        "the fetch is simulated by copying the peer's namespace (objects and references, with pruning) between the two real storages; the RefUpdate list it produces is passed to the real cache_cobs through the hook worker::fetch::verif_cache_cobs",
        "objects always evaluate (no invalid root changes); list results are compared as sets",
        "in-memory sqlite database with the real schema migrations",
    ]
    return ctx.finish(rule=RULE)


def replay(ctx, path):
    ctx.build(ENGINE)
    d = json.load(open(path))["replay"]
    steps = d.get("steps")
    if not steps:
        print(json.dumps(d)[:2000])
        ctx.cleanup()
        return 0
    case = {"log": d.get("log") or [{"step": s} for s in steps]}
    print("behaviour:", " ".join(describe(s) for s in steps))
    p = ctx.write_cases([case], "one.ndjson")
    o = os.path.join(ctx.work, "one.out")
    run_engines(ctx, [["--mode", "replay", "--cases", p, "--out", o]], 600)
    for r in ctx.read_ndjson(o):
        if r.get("summary"):
            print("summary:", json.dumps(r["stats"]))
        else:
            print("kind:", r["kind"], "| after:", r["shape"])
            for x in r.get("diff") or [r.get("detail")]:
                print("  ", x)
    ctx.cleanup()
    return 0
