"""C09 The COB cache answers exactly like direct evaluation (spec/CobCache.tla)."""
import json
import os
import random
import subprocess
import time
import vlib

ENGINE = "c09_cobcache"

RULE = ("behaviours = maximal-length behaviours of MCCobCache (creations, local operations through the caching handles, removals, "
        "operations/creations/deletions by a peer followed by the real cache_cobs, write_all), a seeded sample of which is replayed "
        "into a real Storage + sqlite cache; after every step every query (get, list, list_by_status per status, counts, "
        "find_by_revision for every identifier issued so far: objects, live and redacted revisions, comments, reviews, unknown) is "
        "issued on Cache<_, StoreWriter> and Cache<_, NoCache>, compared in full with each other and with the model's answer; "
        "non-trivial = behaviour with a peer step and a removal/redaction; two repositories share the cache database and every "
        "query is asked of both with the identifiers of both; plus scripted behaviours that fill both repositories with issues and "
        "patches of every status / close reason, and random longer behaviours, recorded from the implementation and validated by "
        "TLC (TraceCobCache)")


def describe(s):
    o = s["op"]
    a = s["a"]
    if a in ("create", "fetchedCreate"):
        return f"{a}(r{o.get('repo', 1)} {o['kind']} {o['st']} {o['id']})"
    if a in ("local", "fetched"):
        return f"{a}({s['obj']}:{o['k']}" + (f" {o['arg']}" if o.get("arg") else "") + (f" {o['st']}" if o["st"] != "-" else "") + ")"
    if a == "writeAll":
        return f"writeAll(r{o.get('repo', 1)} {o['kind']})"
    return f"{a}({s['obj']})"


def shape(log):
    return " ".join(describe(e["step"]) for e in log)


def run_engines(ctx, jobs, timeout):
    env = dict(os.environ, VERIF_SEED=str(ctx.seed), RUST_BACKTRACE="0",
               MALLOC_TOP_PAD_="268435456", MALLOC_TRIM_THRESHOLD_="1073741824")
    procs = [subprocess.Popen(["timeout", "-k", "10", str(timeout), ctx.bin(ENGINE)] + [str(a) for a in j],
                              cwd=ctx.work, env=env, stdout=subprocess.PIPE, stderr=subprocess.PIPE, text=True)
             for j in jobs]
    res = []
    for p in procs:
        o, e = p.communicate()
        if p.returncode in (124, 137):
            raise vlib.ToolError(f"engine {ENGINE} timed out")
        if p.returncode != 0:
            raise vlib.ToolError(f"engine {ENGINE} failed rc={p.returncode}\n{e[-3000:]}")
        res.append(o)
    return res


def replay_cases(ctx, cases, tag, nproc):
    chunks = [cases[i::nproc] for i in range(nproc)]
    jobs, outs = [], []
    for i, ch in enumerate(chunks):
        if not ch:
            continue
        p = ctx.write_cases(ch, f"cases-{tag}-{i}.ndjson")
        o = os.path.join(ctx.work, f"verdicts-{tag}-{i}.ndjson")
        outs.append(o)
        jobs.append(["--mode", "replay", "--cases", p, "--out", o])
    t = time.time()
    run_engines(ctx, jobs, 3000)
    vlib.log(f"engine {ENGINE} replay {tag}: {len(cases)} behaviours in {len(jobs)} processes {time.time()-t:.1f}s")
    recs, stats = [], {}
    for o in outs:
        for r in ctx.read_ndjson(o):
            if r.get("summary"):
                for k, v in r["stats"].items():
                    stats[k] = stats.get(k, 0) + v
            else:
                recs.append(r)
    return recs, stats


def report(ctx, r, source):
    what = {"cache-vs-direct": "the cache and direct evaluation answer differently",
            "model": "the real stores answer differently from CobCache.tla",
            "step": "a step could not be executed as in the model"}[r["kind"]]
    detail = "; ".join(r.get("diff") or [r.get("detail", "")])
    steps = r.get("steps") or [e["step"] for e in r["case"]["log"]]
    rep = {"steps": steps, "failed_after": r["shape"]}
    if r["kind"] == "model":
        rep["log"] = r["case"]["log"]       # with the model's answers, so that the replay compares them again
    ctx.violation(f"{r['kind']} [{r['shape']}] {detail[:160]}", f"{what} ({source}): {detail}", rep)


class Script:
    """Builds a behaviour in the encoding of the model's log; mirrors the model's identifier counter."""

    def __init__(self):
        self.next = 1
        self.steps = []

    def _op(self, k, by, arg=0, st="-", kind="-", repo=0):
        o = {"k": k, "id": self.next, "by": by, "arg": arg, "st": st, "kind": kind, "repo": repo}
        self.next += 1
        return o

    def create(self, repo, kind, st="open", by="me"):
        o = self._op("create", by, 0, st, kind, repo)
        self.steps.append({"a": "create" if by == "me" else "fetchedCreate", "obj": o["id"], "op": o})
        return o["id"]

    def op(self, obj, k, by="me", arg=0, st="-"):
        o = self._op(k, by, arg, st)
        self.steps.append({"a": "local" if by == "me" else "fetched", "obj": obj, "op": o})
        return o["id"]

    def plain(self, a, obj=0, kind="-", repo=0):
        self.steps.append({"a": a, "obj": obj, "op": {"k": "-", "id": 0, "by": "-", "arg": 0, "st": "-", "kind": kind, "repo": repo}})

    def case(self):
        return {"log": [{"step": s} for s in self.steps]}


def populate_full(b, repo, rnd):
    """Issues and patches in every status / close reason, revisions (one redacted), comments (one
    redacted), a review with a comment -- by the local node and by the peer."""
    who = lambda: rnd.choice(["me", "peer"])
    chunks = []

    def issues():
        a = who()
        i1 = b.create(repo, "issue", by=a)
        b.op(i1, "comment", by="peer" if a == "me" else "me")
        i2 = b.create(repo, "issue", by=who())
        b.op(i2, "status", by="me", st="closed:solved")
        i3 = b.create(repo, "issue", by="peer")
        b.op(i3, "status", by="peer", st="closed:other")
        i4 = b.create(repo, "issue", by="me")
        b.op(i4, "status", by="me", st="closed:other")
        b.op(i4, "status", by="me", st="open")
    chunks.append(issues)

    def patches1():
        b.create(repo, "patch", st="draft", by=who())
        p3 = b.create(repo, "patch", by="me")
        b.op(p3, "status", by="me", st="archived")
        p4 = b.create(repo, "patch", by="peer")
        b.op(p4, "revision", by="peer")
        b.op(p4, "status", by="me", st="merged")
    chunks.append(patches1)

    def patches2():
        p2 = b.create(repo, "patch", by="me")
        r = b.op(p2, "revision", by="me")
        c = b.op(p2, "comment", by="peer", arg=r)
        w = b.op(p2, "review", by="peer", arg=p2)
        b.op(p2, "reviewComment", by="me", arg=w)
        r2 = b.op(p2, "revision", by="peer")
        b.op(p2, "comment", by="me", arg=r2)
        b.op(p2, "redactRev", by="peer", arg=r2)
        b.op(p2, "redactComment", by="peer", arg=c)
    chunks.append(patches2)
    rnd.shuffle(chunks)
    return chunks


def populate_light(b, repo, rnd):
    def light():
        i = b.create(repo, "issue", by=rnd.choice(["me", "peer"]))
        b.op(i, "status", by="me", st=rnd.choice(["closed:other", "closed:solved"]))
        p = b.create(repo, "patch", by="me")
        b.op(p, "comment", by="peer", arg=p)
    return [light]


def cross_repo_scripts(rnd, n):
    """Behaviours that fill one or both repositories of the shared cache database."""
    out = []
    for v in range(n):
        b = Script()
        if v % 3 == 0:
            chunks = populate_full(b, 2, rnd) + populate_light(b, 1, rnd)
        elif v % 3 == 1:
            chunks = populate_light(b, 2, rnd) + populate_full(b, 1, rnd)
        else:
            chunks = populate_full(b, 1, rnd) + populate_full(b, 2, rnd)
            rnd.shuffle(chunks)
        for c in chunks:
            c()
        # maintenance steps at the end: write_all of one repository must not touch the other's rows;
        # removals
        b.plain("writeAll", kind="issue", repo=rnd.choice([1, 2]))
        b.plain("writeAll", kind="patch", repo=rnd.choice([1, 2]))
        mine = [s["obj"] for s in b.steps if s["a"] == "create"]
        if mine:
            b.plain("remove", obj=rnd.choice(mine))
        theirs = [s["obj"] for s in b.steps if s["a"] == "fetchedCreate"]
        if theirs:
            b.plain("fetchedDelete", obj=rnd.choice(theirs))
        b.plain("writeAll", kind="issue", repo=1)
        b.plain("writeAll", kind="issue", repo=2)
        out.append(b.case())
    return out


def validate_trace(ctx, rec, source, thorough):
    """TLC validation of a recorded ndjson trace; reports a violation if the model cannot follow."""
    recorded = ctx.read_ndjson(rec)
    ok, info, tres = ctx.validate("TraceCobCache", "TraceCobCache.cfg", rec, timeout=3000 if thorough else 600, heap="6g",
                                  label=f"trace-validation ({source})")
    if ok:
        return recorded
    at = tres.distinct  # 1-based number of the first record the model cannot follow
    h = []
    for r in recorded[:at]:
        if r["ev"] == "reset":
            h = []
        else:
            h.append(r["step"])
    what = info.get("violated") or info.get("rejected")
    ctx.violation(f"{source} [{' '.join(describe(s) for s in h)}] {what}",
                  "the answers of the real stores after the last step of this behaviour are not the ones CobCache.tla gives (or an invariant fails)",
                  {"steps": h, "record": recorded[at - 1] if 0 < at <= len(recorded) else None, "tlc": info})
    return None


def nontrivial(c):
    acts = [e["step"]["a"] for e in c["log"]]
    ks = [e["step"]["op"]["k"] for e in c["log"]]
    return any(a.startswith("fetched") for a in acts) and (any(a in ("remove", "fetchedDelete") for a in acts) or any(k.startswith("redact") for k in ks))


def run(ctx):
    thorough = ctx.tier == "thorough"
    ctx.build(ENGINE)
    rnd = random.Random(ctx.seed)
    cfg = "MCCobCache_t.cfg" if thorough else "MCCobCache_q.cfg"
    res = ctx.tlc("MCCobCache", cfg, workers=8 if thorough else 6, timeout=3000 if thorough else 600, coverage=False,
                  heap="8g" if thorough else "4g",
                  label="exhaustive: 2 repositories in one cache database, <=2 objects, <=4 (thorough) / 3 (quick) operations, <=5 / 4 steps; invariants QueriesAgree (per repository), CacheCoherent")
    ctx.tlc_ok(res, f"MCCobCache/{cfg}")
    if res.violated:
        ctx.violation(f"model:{res.violated}", "the cache design violates the invariant in the bounded model", {"tlc_counterexample": res.error_trace[:120]})
        return ctx.finish(rule=RULE)
    cases = res.cases
    if not cases:
        raise vlib.ToolError("TLC emitted no cases")
    # vacuity guards
    kinds = set()
    for c in cases:
        for e in c["log"]:
            kinds.add(e["step"]["a"])
            kinds.add(e["step"]["op"]["k"])
    need = {"create", "fetchedCreate", "local", "fetched", "remove", "fetchedDelete", "writeAll", "redactRev", "comment", "review", "status"}
    if not need <= kinds:
        raise vlib.ToolError(f"vacuous case set: missing {sorted(need - kinds)}")
    # the deviations (the code before the fixes; queries that forget the repository) must each be
    # rejected by TLC
    devs = ["JsonTree", "StatusOnly", "RemoveDrops", "UnscopedStatus", "UnscopedFind"]
    if thorough:
        devs += ["UnscopedGet", "UnscopedList", "UnscopedCounts"]
    for d in devs:
        dev = ctx.tlc("MCCobCache", f"MCCobCache_dev_{d}.cfg", workers=4, timeout=600, coverage=False, count=False,
                      label=f"sanity: deviation {d} must violate QueriesAgree")
        if dev.violated != "QueriesAgree":
            raise vlib.ToolError(f"sanity run: deviation {d} was not rejected by TLC (violated={dev.violated})")
    # spec -> implementation: a seeded sample (interesting behaviours first)
    n = 1200 if thorough else 150
    # stratified: one bucket per multiset of step kinds, served round-robin, so that rare shapes
    # (redactions, review comments, deletions) are always in the sample
    buckets = {}
    for c in cases:
        sig = tuple(sorted(e["step"]["a"] + ":" + e["step"]["op"]["k"] for e in c["log"])) + \
            (len(set(e["step"]["op"]["repo"] for e in c["log"] if e["step"]["op"]["k"] == "create")),)
        buckets.setdefault(sig, []).append(c)
    keys = sorted(buckets)
    rnd.shuffle(keys)
    for k in keys:
        rnd.shuffle(buckets[k])
    chosen = []
    while len(chosen) < n and keys:
        for k in list(keys):
            if buckets[k]:
                chosen.append(buckets[k].pop())
                if len(chosen) >= n:
                    break
            else:
                keys.remove(k)
    ctx.cov["shape_classes"] = len(buckets)
    recs, stats = replay_cases(ctx, chosen, "mc", 8 if thorough else 6)
    for r in recs:
        report(ctx, r, "replay of a behaviour of the bounded model")
    ctx.cov["evaluations"] += stats.get("query_comparisons", 0)
    ctx.cov["traces_validated_against_impl"] += len(chosen)
    ctx.cov["distinct_nontrivial"] += sum(1 for c in chosen if nontrivial(c))
    ctx.cov["samples"] += [shape(c["log"]) for c in chosen[:3]]
    ctx.cov["behaviours_emitted"] = len(cases)
    ctx.cov["steps_replayed"] = stats.get("steps", 0)
    ctx.cov["exhaustive"] = False
    # implementation -> spec
    nproc = 6
    per = 20 if thorough else 5
    steps = 14 if thorough else 10
    jobs, outs = [], []
    for i in range(nproc):
        o = os.path.join(ctx.work, f"rec-{i}.ndjson")
        outs.append(o)
        jobs.append(["--mode", "record", "--n", per, "--steps", steps, "--salt", i + 1, "--out", o])
    t = time.time()
    summaries = run_engines(ctx, jobs, 3000)
    vlib.log(f"engine {ENGINE} record: {nproc * per} behaviours of {steps} steps {time.time()-t:.1f}s")
    failed = False
    for s in summaries:
        for line in s.splitlines():
            if line.startswith("{"):
                for f in json.loads(line)["stats"]["failures"]:
                    failed = True
                    report(ctx, f, "recorded random behaviour")
    if not failed:
        rec = os.path.join(ctx.work, "rec.ndjson")
        with open(rec, "w") as out:
            for o in outs:
                out.write(open(o).read())
        recorded = validate_trace(ctx, rec, "recorded behaviour", thorough)
        if recorded is not None:
            nb = sum(1 for r in recorded if r["ev"] == "reset")
            ns = sum(1 for r in recorded if r["ev"] == "step")
            ctx.cov["traces_validated_against_impl"] += nb
            ctx.cov["recorded_behaviours"] = nb
            ctx.cov["recorded_steps"] = ns
            ctx.cov["evaluations"] += sum(len(r["ans"]) * (2 * len(r["ans"][0]["get"]) + 12) for r in recorded if r["ev"] == "step")
            longest = [r["step"] for r in recorded[1:steps + 1] if r["ev"] == "step"]
            ctx.cov["samples"] += [{"recorded": " ".join(describe(s) for s in longest)}]
    # several repositories in one cache database: scripted behaviours that fill both repositories
    # with issues and patches of every status and reason; after every step all queries of both
    # repositories (with the identifiers of both as arguments), cache vs direct evaluation; the
    # recorded answers are validated against the model as well
    scripts = cross_repo_scripts(rnd, 12 if thorough else 3)
    nproc = min(len(scripts), 6)
    jobs, outs, traces = [], [], []
    for i in range(nproc):
        p = ctx.write_cases(scripts[i::nproc], f"cross-{i}.ndjson")
        o = os.path.join(ctx.work, f"cross-verdicts-{i}.ndjson")
        tr = os.path.join(ctx.work, f"cross-trace-{i}.ndjson")
        outs.append(o)
        traces.append(tr)
        jobs.append(["--mode", "replay", "--cases", p, "--out", o, "--trace", tr])
    t = time.time()
    run_engines(ctx, jobs, 3000)
    vlib.log(f"engine {ENGINE} cross-repository scripts: {len(scripts)} behaviours of {len(scripts[0]['log'])}..{max(len(c['log']) for c in scripts)} steps {time.time()-t:.1f}s")
    cross_failed = False
    cstats = {}
    for o in outs:
        for r in ctx.read_ndjson(o):
            if r.get("summary"):
                for k, v in r["stats"].items():
                    cstats[k] = cstats.get(k, 0) + v
            else:
                cross_failed = True
                report(ctx, r, "two repositories sharing the cache database")
    ctx.cov["cross_repository_behaviours"] = len(scripts)
    ctx.cov["cross_repository_steps"] = cstats.get("steps", 0)
    ctx.cov["evaluations"] += cstats.get("query_comparisons", 0)
    if not cross_failed:
        rec = os.path.join(ctx.work, "cross-trace.ndjson")
        with open(rec, "w") as out:
            for tr in traces:
                out.write(open(tr).read())
        if validate_trace(ctx, rec, "cross-repository behaviour", thorough) is not None:
            ctx.cov["traces_validated_against_impl"] += len(scripts)
            ctx.cov["samples"] += [{"cross_repository": " ".join(describe(e["step"]) for e in scripts[0]["log"][:14]) + " ..."}]
    ctx.assumptions += [
        "two repositories of one storage share one cache database (identifiers never coincide across repositories: change ids cover the repository identity)",
        "two namespaces (the local node and one peer); actors are in sync before they act, so object histories are linear and a reference is a prefix of the history",
        "the fetch is simulated by copying the peer's namespace (objects and references, with pruning) between the two real storages; the RefUpdate list it produces is passed to the real cache_cobs through the hook worker::fetch::verif_cache_cobs",
        "objects always evaluate (no invalid root changes); list results are compared as sets",
        "in-memory sqlite database with the real schema migrations",
    ]
    return ctx.finish(rule=RULE)


def replay(ctx, path):
    ctx.build(ENGINE)
    d = json.load(open(path))["replay"]
    steps = d.get("steps")
    if not steps:
        print(json.dumps(d)[:2000])
        ctx.cleanup()
        return 0
    case = {"log": d.get("log") or [{"step": s} for s in steps]}
    print("behaviour:", " ".join(describe(s) for s in steps))
    p = ctx.write_cases([case], "one.ndjson")
    o = os.path.join(ctx.work, "one.out")
    run_engines(ctx, [["--mode", "replay", "--cases", p, "--out", o]], 600)
    for r in ctx.read_ndjson(o):
        if r.get("summary"):
            print("summary:", json.dumps(r["stats"]))
        else:
            print("kind:", r["kind"], "| after:", r["shape"])
            for x in r.get("diff") or [r.get("detail")]:
                print("  ", x)
    ctx.cleanup()
    return 0
