"""Wire-level scenarios (engine c13_wire): the real `Wire` around the real `Service`.

Used by C13 (control frames, frame bytes and gossip through `Wire::handle_transport_event`; no step may
panic) and by C16 (fetch scheduling with the real `Wire::worker_result` gate and the real Io::Fetch -> Task
translation). Scripts come from the design model spec/Streams.tla (one behaviour per reachable state),
from scripted regressions and from a seeded random generator; the log is validated by TLC against
spec/TraceFetchSched.tla.
"""
import json
import os
import random
import subprocess
import vlib

ENGINE = "c13_wire"


def streams_to_script(i, ops):
    """Behaviour of Streams.tla -> wire script on one inbound connection; every fetch targets a fresh
    repository so that it opens a stream; `wdone g` finishes the g-th task the worker pool received."""
    out = [["connect", 1, "in"]]
    nfetch = 0
    for op in ops:
        n = op[0]
        if n == "fetch":
            nfetch += 1
            out.append(["fetch", nfetch, 1])
        elif n == "ctrl":
            out.append(["ctrl", 1, op[1], "ours" if op[2] == "us" else "theirs", op[3]])
        elif n == "done":
            out.append(["wdone", op[1]])
        elif n == "disconnect":
            out.append(["disconnect", 1])
        elif n == "connect":
            out.append(["connect", 1, "in"])
    return {"run": f"st{i}", "peers": 1, "repos": 8, "capacity": 8, "ops": out}


def random_script(rng, i, nops):
    npeers = rng.randint(1, 3)
    nrepos = rng.randint(1, 3)
    ops = []
    conn = set()
    nf = 0
    classes = ["ours-next", "ours", "theirs", "gossip", "control", "unknown-kind"]
    for _ in range(nops):
        x = rng.random()
        if x < 0.12 or not conn:
            cand = [p for p in range(1, npeers + 1) if p not in conn]
            if cand:
                p = rng.choice(cand)
                conn.add(p)
                ops.append(["connect", p, "in"])
        elif x < 0.20:
            p = rng.choice(sorted(conn))
            conn.discard(p)
            ops.append(["disconnect", p] + (["late-handover"] if rng.random() < 0.3 else []))
            if rng.random() < 0.5:
                ops.append(["handover"])
            if rng.random() < 0.6:
                conn.add(p)
                ops.append(["connect", p, "in"])
        elif x < 0.38:
            ops.append(["fetch", rng.randint(1, nrepos), rng.randint(1, npeers)])
            nf += 1
        elif x < 0.46:
            ops.append(["annfetch", rng.randint(1, nrepos), rng.choice(sorted(conn))])
            nf += 1
        elif x < 0.60:
            if nf:
                ops.append(["done", rng.randint(1, nf), rng.choice(["ok", "ok", "err", "timeout"])])
        elif x < 0.78:
            ops.append(["ctrl", rng.choice(sorted(conn)), rng.choice(["open", "open", "close", "eof"]), rng.choice(classes), rng.randint(0, 3)])
        elif x < 0.84:
            ops.append(["git", rng.choice(sorted(conn)), rng.choice(classes), rng.randint(0, 3), rng.choice([0, 1, 8, 2000])])
        elif x < 0.90:
            if rng.random() < 0.35:
                ops.append(["gossip", rng.choice(sorted(conn)), "node", rng.choice(DNS_NAMES)])
            else:
                ops.append(["gossip", rng.choice(sorted(conn)), rng.choice(["subscribe", "ping", "pong", "node"]), rng.choice([0, 1, 8192, 60000])])
        elif x < 0.95:
            # raw bytes: a mutated frame header or plain garbage (the peer is disconnected for it)
            y = rng.random()
            if y < 0.4:
                hexs = "72616401" + "".join(rng.choice("0123456789abcdef") for _ in range(2 * rng.randint(1, 12)))
            elif y < 0.7:
                hexs = "".join(rng.choice("0123456789abcdef") for _ in range(2 * rng.randint(1, 40)))
            else:
                hexs = "72616401" + rng.choice(["00", "02", "04", "05", "0c"]) + rng.choice(["00", "01", "02", "03", "ff"]) + "".join(rng.choice("0123456789abcdef") for _ in range(2 * rng.randint(0, 6)))
            ops.append(["raw", rng.choice(sorted(conn)), hexs])
        else:
            ops.append(["idle"])
    return {"run": f"wr{i}", "peers": npeers, "repos": nrepos, "capacity": rng.choice([1, 1, 2]), "rng": rng.randint(1, 1000), "ops": ops}


DNS_NAMES = ["x.onion", "", "a:b", "1.2.3.4", "::1", "[::1]", "seed.example.com", ".onion", "a" * 255, "\u00e9.example", "a b", "x.onion:1",
             "vww6ybal4bd7szmgncyruucpgfkqahzddi37ktceo3ah7ngmcopnpyyd.onion", "vww6ybal4bd7szmgncyruucpgfkqahzddi37ktceo3ah7ngmcopnpyyx.onion"]


def scripted():
    return [
        # a DNS-typed address whose text form does not read back as an address (".onion" names that are not onion
        # addresses), then the places that load the peer's addresses again: the sync task looking for seeds
        {"run": "w-dns-onion-address", "peers": 2, "repos": 2, "capacity": 1, "ops": [["connect", 1, "in"], ["gossip", 1, "node", "x.onion"], ["annfetch", 1, 1],
         ["idle"], ["done", 1, "ok"], ["idle"], ["idle"], ["connect", 2, "in"], ["fetch", 1, 2], ["idle"]]},
        {"run": "w-stream-collision", "peers": 1, "repos": 2, "capacity": 2, "ops": [["connect", 1, "in"], ["ctrl", 1, "open", "theirs", 1],
         ["ctrl", 1, "open", "ours-next", 0], ["fetch", 1, 1], ["ctrl", 1, "open", "ours-next", 0], ["ctrl", 1, "close", "ours", 1], ["fetch", 2, 1],
         ["done", 1, "ok"], ["done", 2, "ok"], ["idle"]]},
        {"run": "w-late-other-peer", "peers": 2, "repos": 1, "capacity": 1, "ops": [["connect", 1, "in"], ["connect", 2, "in"], ["fetch", 1, 1], ["disconnect", 1],
         ["connect", 1, "in"], ["fetch", 1, 2], ["done", 1, "ok"], ["fetch", 1, 1], ["done", 2, "ok"], ["idle"]]},
        {"run": "w-late-same-peer", "peers": 1, "repos": 1, "capacity": 1, "ops": [["connect", 1, "in"], ["fetch", 1, 1], ["disconnect", 1], ["connect", 1, "in"],
         ["fetch", 1, 1], ["done", 1, "ok"], ["fetch", 1, 1], ["done", 2, "ok"], ["done", 3, "ok"]]},
        {"run": "w-result-while-disconnecting", "peers": 2, "repos": 2, "capacity": 1, "ops": [["connect", 1, "in"], ["connect", 2, "in"], ["fetch", 1, 1], ["fetch", 2, 2],
         ["disconnect", 1, "late-handover"], ["done", 1, "ok"], ["handover"], ["done", 2, "timeout"], ["idle"], ["connect", 1, "in"], ["fetch", 1, 1], ["done", 3, "ok"]]},
    ]


def run_wire(ctx, thorough, nrand=None):
    """Runs the wire-level scenarios; returns (cases, scripts_by_run, where, stats): TLC CASE records of
    TraceFetchSched, the scripts, record index -> run id, and counts."""
    ctx.build(ENGINE)
    res = ctx.tlc("MCStreams", "MCStreams_t.cfg" if thorough else "MCStreams.cfg", workers=1, timeout=1800, coverage=True,
                  label="stream multiplexing design model: NoCrash, OurIdsAreOurs, OpenHasTask, NoStolenStream (deviations disabled)")
    ctx.tlc_ok(res, "MCStreams")
    if res.violated:
        ctx.violation(f"model:{res.violated}", "the stream design model violates the invariant", {"tlc": res.error_trace[:80]})
        return [], {}, {}, {}
    ctx.require_coverage(res, ["OurOpen", "Disconnect", "Connect", "RemoteOpen", "RemoteClose", "RemoteEof", "Done"])
    for cfgd, name, inv in (("MCStreams_dev.cfg", "remote-opens-any", "NoCrash"), ("MCStreams_dev2.cfg", "late-closes-new", "NoStolenStream")):
        dev = ctx.tlc("MCStreams", cfgd, workers=1, timeout=600, coverage=False, count=False,
                      label=f"sanity: deviation {name} must violate {inv}")
        if dev.violated != inv:
            raise vlib.ToolError(f"sanity run: deviation {name} was not rejected by TLC")
    behaviours = [c["ops"] for c in res.cases if c.get("ops")]
    limit = 6000 if thorough else 1200
    if len(behaviours) > limit:
        behaviours = random.Random(ctx.seed * 7919 + 5).sample(behaviours, limit)
    scripts = scripted() + [streams_to_script(i, b) for i, b in enumerate(behaviours)]
    rng = random.Random(ctx.seed * 15485863 + 11)
    nrand = nrand if nrand is not None else (2500 if thorough else 400)
    scripts += [random_script(rng, i, rng.randint(8, 50)) for i in range(nrand)]
    nshards = 8
    procs = []
    for i in range(nshards):
        sp = os.path.join(ctx.work, f"wscripts{i}.ndjson")
        with open(sp, "w") as f:
            for s in scripts[i::nshards]:
                f.write(json.dumps(s, separators=(",", ":")) + "\n")
        ep = os.path.join(ctx.work, f"wevents{i}.ndjson")
        procs.append((ep, subprocess.Popen([ctx.bin(ENGINE), "--scripts", sp, "--out", ep], cwd=ctx.work,
                                           stdout=subprocess.PIPE, stderr=subprocess.PIPE, text=True)))
    for ep, pr in procs:
        try:
            _, err = pr.communicate(timeout=3000)
        except subprocess.TimeoutExpired:
            pr.kill()
            raise vlib.ToolError("wire engine timed out")
        if pr.returncode != 0:
            raise vlib.ToolError(f"wire engine failed rc={pr.returncode}: {err[-2000:]}")
    merged = os.path.join(ctx.work, "wevents.ndjson")
    where, cur, steps, fetches, ctrl = {}, None, 0, 0, 0
    n = 0
    with open(merged, "w") as out:
        for ep, _ in procs:
            for line in open(ep):
                out.write(line)
                n += 1
                e = json.loads(line)
                if e["ev"] == "init":
                    cur = e["run"]
                else:
                    steps += 1
                    fetches += len(e["fetches"])
                    ctrl += 1 if e["op"][0] in ("ctrl", "git", "raw", "gossip") else 0
                where[n] = cur
    ok, info, tres = ctx.validate("TraceFetchSched", "TraceFetchSched.cfg", merged, timeout=3000, heap="8g", label="wire-level trace validation")
    if not ok:
        raise vlib.ToolError(f"trace validation did not consume the whole wire log: {info}")
    conformance = stream_conformance(ctx, [ep for ep, _ in procs])
    stats = {"stream_model_conformance": conformance, "wire_runs": len(scripts), "wire_steps": steps, "wire_fetches": fetches, "wire_frame_inputs": ctrl,
             "stream_model_behaviours": len(behaviours)}
    ctx.cov["traces_validated_against_impl"] += len(scripts)
    ctx.cov["evaluations"] += steps
    ctx.cov["samples"] += [scripts[len(scripted())], scripts[-1]]
    return tres.cases, {s["run"]: s for s in scripts}, where, stats


def stream_conformance(ctx, event_files):
    """Strict conformance of Streams.tla (informational: drift, not a violation): the executions of the model's
    behaviours must be behaviours of its ACTIONS with the observed stream bookkeeping, written control frames
    and crash flag (spec/TraceStreamsOp.tla, Dev = the code as it is)."""
    ep = os.path.join(ctx.work, "stevents.ndjson")
    nm, keep = 0, False
    with open(ep, "w") as f:
        for path in event_files:
            for line in open(path):
                if line.startswith('{"ev":"init"'):
                    keep = str(json.loads(line)["run"]).startswith("st")
                    nm += 1 if keep else 0
                if keep:
                    f.write(line)
    try:
        okm, infom, _ = ctx.validate("TraceStreamsOp", "TraceStreamsOp.cfg", ep, timeout=3000, heap="8g", label="strict stream-model conformance (informational)")
    except vlib.ToolError as e:
        return {"behaviours": nm, "accepted": None, "error": str(e)[:300]}
    out = {"behaviours": nm, "accepted": okm, "rejected": infom.get("rejected")}
    if not okm:
        vlib.log(f"MODEL-DRIFT (not a violation): the real Wire left Streams.tla's actions: {infom.get('rejected')}")
        return out
    # binding self-test: a log with one registered stream dropped / one written control frame dropped must be rejected
    lines = open(ep).read().splitlines()
    for kind in ("drop-stream", "drop-frame"):
        done, outl = False, []
        for ln in lines:
            e = json.loads(ln)
            if not done and e["ev"] == "step":
                if kind == "drop-stream" and e["streams"] and e["streams"][0][3]:
                    e["streams"][0][3] = e["streams"][0][3][:-1]
                    done = True
                elif kind == "drop-frame" and e["sent_ctrl"]:
                    e["sent_ctrl"], done = e["sent_ctrl"][:-1], True
            outl.append(json.dumps(e, separators=(",", ":")))
        if not done:
            raise vlib.ToolError(f"binding self-test: nothing to corrupt ({kind})")
        cp = os.path.join(ctx.work, f"selftest-{kind}.ndjson")
        with open(cp, "w") as f:
            f.write("\n".join(outl) + "\n")
        okc, _, _ = ctx.validate("TraceStreamsOp", "TraceStreamsOp.cfg", cp, timeout=3000, heap="8g", label=f"binding self-test: {kind}")
        if okc:
            raise vlib.ToolError(f"binding self-test failed: corrupted log ({kind}) was accepted by TraceStreamsOp")
    out["selftest_corrupted_logs_rejected"] = 2
    return out


def stream_ids_proof(ctx):
    """Unbounded complement (informational, never gating): TLAPS proof of spec/StreamIds.tla -- no sequence of control
    frames, fetches, results and reconnections makes Streams::open find its id taken, for any number of streams."""
    import re
    import shutil
    try:
        d = os.path.join(ctx.work, "tlaps")
        os.makedirs(d, exist_ok=True)
        shutil.copy(os.path.join(vlib.SPEC, "StreamIds.tla"), d)
        p = subprocess.run(["timeout", "300", "tlapm", "--threads", "4", "StreamIds.tla"], cwd=d,
                           stdout=subprocess.PIPE, stderr=subprocess.STDOUT, text=True)
        m = re.search(r"All (\d+) obligations proved", p.stdout)
        return {"ran": True, "all_proved": bool(m), "obligations": int(m.group(1)) if m else None,
                "theorems": ["NoCrash (Spec => []Inv, Inv = TypeOK /\\ OurIdsAreOurs /\\ ~crashed)"], "prover": "tlapm 1.6.0-pre (SMT, Zenon, Isabelle, PTL)"}
    except Exception as e:  # tool trouble is not a verdict
        return {"ran": False, "error": str(e)[:200]}


def c13_part(ctx):
    thorough = ctx.tier == "thorough"
    cases, scripts, where, stats = run_wire(ctx, thorough)
    stats["tlaps_unbounded_proof_stream_ids"] = stream_ids_proof(ctx)
    for c in cases:
        for v in c["viol"]:
            if v["c"] == "C16_Panic":
                run_id = where.get(c["at"])
                msg = v["why"]
                what = "stream-already-open" if "already open" in msg else "other"
                ctx.violation(f"C13_Panic:wire:{c['op'][0]}:{what}", f"run {run_id} step {json.dumps(c['op'])}: the wire/service panicked: {msg[:300]}",
                              {"engine": ENGINE, "script": scripts.get(run_id), "op": c["op"]})
    return stats


def replay(ctx, path):
    ctx.build(ENGINE)
    d = json.load(open(path))["replay"]
    sp = os.path.join(ctx.work, "one.ndjson")
    with open(sp, "w") as f:
        f.write(json.dumps(d["script"]) + "\n")
    ep = os.path.join(ctx.work, "one.events.ndjson")
    ctx.engine(ENGINE, ["--scripts", sp, "--out", ep])
    ok, info, tres = ctx.validate("TraceFetchSched", "TraceFetchSched.cfg", ep)
    for line in open(ep):
        print(line.rstrip()[:400])
    for c in tres.cases:
        print("VIOLATED", json.dumps(c))
    ctx.cleanup()
    return 0
